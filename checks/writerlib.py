"""Writer-level suites shared by C03 / C06: the real writer over a tiny identifier pool (hook VerifWriterSetPool), so that
exhaustion, release and re-use of identifiers are reachable through real PUBLISH deliveries."""
from checks.brokerlib import Scenario, run_scenarios, pubstr


def gen_pool_exhaustion(rng):
    sc = Scenario(rng, 1, 1)
    lo = rng.choice([1, 1, 5])
    size = rng.choice([2, 3, 4])
    hi = lo + size - 1
    pubr = sc.connect(node=0)
    subs = [sc.connect(node=0) for _ in range(rng.choice([1, 2]))]
    for s in subs:
        sc.sub(s, [("t", rng.choice([1, 2]))])
    sc.ops.append(f"setpool 0 {lo} {hi}")
    held = {s: 0 for s in subs}   # deliveries outstanding per subscriber; None = unknown (after a partial fan-out)
    stalls = 0         # each publish that finds no identifier stalls the writer for 0.5 s: keep the script well under
                       # the 3 s acknowledgement deadline, or the broker's own ticker starts retransmitting

    def free_ids():
        if any(v is None for v in held.values()):
            return None
        return size - sum(held.values())

    for _ in range(rng.choice([5, 8, 12])):
        r = rng.random()
        free = free_ids()
        if (free is None or free < len(subs)) and stalls >= 2:
            r = 0.7
        if r < 0.6:
            if free is None or free < len(subs):
                stalls += 1
            sc.mid += 1
            payload = "%02x" % (sc.mid % 256)
            exp = {pubr: [f"puback({sc.mid})"]}
            # recipients are served in an order the Go map decides; with fewer free ids than recipients the oracle is
            # silent, and stays silent about identifiers until every subscriber has acknowledged everything it holds
            need = len(subs)
            if free is not None and free >= need:
                for s in subs:
                    q = sc.clients[s]["subs"]["t"]
                    exp.setdefault(s, []).append(pubstr("t", payload, q, 0, 0))
                    held[s] += 1
                sc.emit(f"pub {pubr} t {payload} 1 0 0 {sc.mid}", exp, "delivery-with-free-identifiers")
            elif free == 0:
                sc.emit(f"pub {pubr} t {payload} 1 0 0 {sc.mid}", exp, "delivery-without-free-identifier")
            else:
                sc.ops.append(f"pub {pubr} t {payload} 1 0 0 {sc.mid}")
                for s in subs:
                    held[s] = None
        elif r < 0.9 and any(v != 0 for v in held.values()):
            s = rng.choice(subs)
            sc.ops.append(f"ackall {s}")
            held[s] = 0
        else:
            sc.ops.append("pool 0")
    sc.ops.append("pool 0")
    for s in subs:
        sc.ops.append(f"ackall {s}")
    sc.ops.append("pool 0")
    return sc


def add_pool_suites(c, samples):
    n = 6 if c.tier == "quick" else 60
    from checks.brokerlib import corpus
    scs = corpus(c.rng, ["ids-return-after-recipient-vanished", "takeover-with-unacked-delivery"]) + [gen_pool_exhaustion(c.rng) for _ in range(n)]
    run_scenarios(c, "writer-tiny-pool-exhaustion", scs, samples)

"""Writer-level suites shared by C03 / C06 (filled in once the writer harness domain exists)."""


def add_pool_suites(c, samples):
    return

"""Shared generators and oracles for the trie-based checks (C01, C07, C19, C17)."""
import itertools


def levels(t):
    return ("" if t == "~" else t).split("/")


def mqtt_match(f, t):
    """python mirror of Wasp.Topic.mqttMatch on level lists"""
    if not f:
        return not t
    if not t:
        return f[0] == "#" and len(f) == 1
    if f[0] == "#":
        return len(f) == 1
    return (f[0] == "+" or f[0] == t[0]) and mqtt_match(f[1:], t[1:])


def wf_filter(f):
    return len(f) >= 1 and all(l != "#" for l in f[:-1])


def wf_topic(t):
    return len(t) >= 1 and all(l not in ("+", "#") for l in t)


def enc(ls):
    s = "/".join(ls)
    return s if s != "" else "~"


def all_level_lists(alphabet, maxlen):
    for n in range(1, maxlen + 1):
        for tup in itertools.product(alphabet, repeat=n):
            yield list(tup)


def parse_list(s):
    s = s.strip()
    assert s.startswith("[") and s.endswith("]"), s
    inner = s[1:-1].strip()
    return inner.split(" ") if inner else []

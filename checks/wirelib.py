"""MQTT 3.1.1 packet builders and structure-aware mutations for the hostile-stream suites (C18)."""


def lp(b):
    return bytes([len(b) >> 8, len(b) & 255]) + b


def remlen(n):
    out = bytearray()
    while True:
        d = n % 128
        n //= 128
        if n > 0:
            d |= 128
        out.append(d)
        if n == 0:
            return bytes(out)


def pkt(ptype, flags, body):
    return bytes([ptype << 4 | flags]) + remlen(len(body)) + body


def connect(cid, user="mp", pw="ok", keepalive=60, will=None, proto=b"MQTT", ver=4):
    flags = 2
    body = lp(proto) + bytes([ver])
    tail = lp(cid.encode())
    if will:
        wt, wp, wq, wr = will
        flags |= 4 | (wq & 3) << 3 | (32 if wr else 0)
        tail += lp(wt.encode()) + lp(wp)
    if user is not None:
        flags |= 128
        tail += lp(user.encode())
    if pw is not None:
        flags |= 64
        tail += lp(pw.encode())
    body += bytes([flags, keepalive >> 8, keepalive & 255]) + tail
    return pkt(1, 0, body)


def publish(topic, payload, qos=0, retain=0, dup=0, mid=1):
    body = lp(topic.encode())
    if qos > 0:
        body += bytes([mid >> 8, mid & 255])
    body += payload
    return pkt(3, (dup << 3) | (qos << 1) | retain, body)


def ack(ptype, mid, flags=0):
    return pkt(ptype, flags, bytes([mid >> 8, mid & 255]))


def subscribe(mid, topics):
    body = bytes([mid >> 8, mid & 255])
    for t, q in topics:
        body += lp(t.encode()) + bytes([q])
    return pkt(8, 2, body)


def unsubscribe(mid, topics):
    body = bytes([mid >> 8, mid & 255])
    for t in topics:
        body += lp(t.encode())
    return pkt(10, 2, body)


PINGREQ = pkt(12, 0, b"")
DISCONNECT = pkt(14, 0, b"")


def valid_packets(rng):
    """a pool of valid client packets (name, bytes)"""
    return [
        ("publish0", publish("a/b", b"\x01\x02", 0)),
        ("publish1", publish("a/b", b"\x03", 1, mid=7)),
        ("publish2", publish("a", b"", 2, mid=9)),
        ("publish-retain", publish("r/t", b"\x05", 1, retain=1, mid=3)),
        ("puback", ack(4, 1)), ("pubrec", ack(5, 1)), ("pubrel", ack(6, 9, 2)), ("pubcomp", ack(7, 1)),
        ("subscribe", subscribe(5, [("a/#", 1), ("+/b", 0)])),
        ("subscribe-q2", subscribe(6, [("wit", 2)])),
        ("unsubscribe", unsubscribe(8, [("a/#")])),
        ("pingreq", PINGREQ), ("disconnect", DISCONNECT),
        ("connect", connect("again")),
    ]


def mutations(rng, name, b):
    """structure-aware mutations of one packet: list of (label, bytes)"""
    out = []
    # truncation at every offset
    for k in range(0, len(b)):
        out.append((f"{name}:trunc{k}", b[:k]))
    # flipped type / flag nibbles
    for t in range(16):
        out.append((f"{name}:type{t}", bytes([(t << 4) | (b[0] & 15)]) + b[1:]))
    for fl in (1, 2, 4, 6, 8, 15):
        out.append((f"{name}:flags{fl}", bytes([(b[0] & 0xF0) | fl]) + b[1:]))
    # corrupted remaining length: shorter, longer, multi-byte, five bytes
    body = b[2:] if b[1] < 128 else b[3:]
    for rl in (0, 1, 2, max(0, len(body) - 1), len(body) + 1, len(body) + 50):
        out.append((f"{name}:remlen{rl}", bytes([b[0]]) + remlen(rl) + body))
    out.append((f"{name}:remlen-5bytes", bytes([b[0], 0x80, 0x80, 0x80, 0x80, 0x01]) + body))
    if name == "pingreq":
        # the maximal remaining length makes the broker allocate 256 MiB for this connection: once is enough
        out.append((f"{name}:remlen-4bytes-big", bytes([b[0], 0xff, 0xff, 0xff, 0x7f]) + body))
    # corrupted length prefixes inside the body
    for k in range(len(body) - 1):
        if body[k] == 0 and body[k + 1] < 64:
            for v in (0, 1, body[k + 1] + 1, 200):
                nb = bytearray(body)
                nb[k + 1] = v
                out.append((f"{name}:lp{k}={v}", bytes([b[0]]) + remlen(len(nb)) + bytes(nb)))
            nb = bytearray(body)
            nb[k] = 0xff
            out.append((f"{name}:lp{k}=huge", bytes([b[0]]) + remlen(len(nb)) + bytes(nb)))
    # random byte flips
    for _ in range(4):
        nb = bytearray(b)
        nb[rng.randrange(len(nb))] ^= 1 << rng.randrange(8)
        out.append((f"{name}:flip", bytes(nb)))
    return out


def special_packets():
    return [
        ("publish-qos3", pkt(3, 6, lp(b"a/b") + b"\x00\x01x")),
        ("publish1-noid", pkt(3, 2, lp(b"a"))),
        ("publish1-id0", publish("a/b", b"\x01", 1, mid=0)),
        ("publish2-id0", publish("a/b", b"\x01", 2, mid=0)),
        ("subscribe-empty", pkt(8, 2, b"\x00\x01")),
        ("subscribe-nobody", pkt(8, 2, b"")),
        ("subscribe-id0", subscribe(0, [("a", 0)])),
        ("subscribe-qos3", subscribe(4, [("a", 3)])),
        ("subscribe-emptyfilter", subscribe(4, [("", 1)])),
        ("unsubscribe-empty", pkt(10, 2, b"\x00\x01")),
        ("unsubscribe-nobody", pkt(10, 2, b"")),
        ("unsubscribe-short", pkt(10, 2, b"\x00\x01\x00\x05ab")),
        ("puback-short", pkt(4, 0, b"\x00")), ("puback-empty", pkt(4, 0, b"")),
        ("pubrel-empty", pkt(6, 2, b"")), ("pubrec-long", pkt(5, 0, b"\x00\x01\x02\x03")),
        ("connack-from-client", pkt(2, 0, b"\x00\x00")), ("suback-from-client", pkt(9, 0, b"\x00\x01\x00")),
        ("unsuback-from-client", pkt(11, 0, b"\x00\x01")), ("pingresp-from-client", pkt(13, 0, b"")),
        ("type0", pkt(0, 0, b"")), ("type15", pkt(15, 0, b"\x01")),
        ("connect-v3", connect("old", proto=b"MQIsdp", ver=3)),
        ("connect-badproto", connect("x", proto=b"MQTT", ver=5)),
        ("connect-badpass", connect("x", pw="nope")),
        ("connect-nouser", connect("x", user=None, pw=None)),
        ("connect-will", connect("willy", will=("w/t", b"bye", 1, 0))),
        ("connect-emptywilltopic", connect("willy2", will=("", b"bye", 1, 0))),
        ("connect-keepalive0", connect("ka0", keepalive=0)),
        ("connect-emptyid", connect("")),
        ("big-publish", publish("big", bytes(range(256)) * 40, 0)),
    ]

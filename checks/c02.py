from checks.brokerchecks import c02 as main

from checks.brokerchecks import c03 as main

"""Check entry points for the properties decided on the broker model (C02, C03, C05, C11, C12, C13, C14, C17)."""
from checklib import Check, Suite
from checks import brokerlib
from checks.brokerlib import gen_converged, gen_retransmit, gen_faults, gen_lifecycle, run_scenarios


def n_of(c, quick, thorough):
    return quick if c.tier == "quick" else thorough


def c03(tier=None):
    c = Check("C03", ["Wasp.Properties.Facts.Wiring", "Wasp.Properties.C03", "Wasp.Properties.C03C14E2E", "Wasp.Properties.C02Pool", "Wasp.Properties.C02E2E", "Wasp.Properties.C06", "Wasp.Properties.C06Lit", "Wasp.Properties.C04", "Wasp.Properties.C04Lit", "Wasp.Properties.Facts.C03"], tier)
    c.build()
    samples = []
    scs = brokerlib.corpus(c.rng, ["slow-qos2", "wrong-type-ack", "inbound-outbound-id", "ids-return-after-recipient-vanished", "takeover-with-unacked-delivery", "retransmit-then-next", "fanout-unacked-retransmit", "topic-starts-with-mount-name"])
    scs += [gen_retransmit(c.rng, c.rng.choice([1, 1, 2])) for _ in range(n_of(c, 14, 200))]
    scs += [brokerlib.gen_broken_recipient_qos(c.rng) for _ in range(n_of(c, 10, 100))]
    run_scenarios(c, "retransmission-scripts", scs, samples)
    from checks import writerlib
    writerlib.add_pool_suites(c, samples)
    # "at the first sweep after its deadline": the real ack.Queue under real (not synthetic) sweep times
    from checks import c04
    c04.add_queue_suites(c, samples, exhaustive_n=2, n_random=n_of(c, 600, 10000))
    c04.add_concurrent_suite(c, samples)
    c.assumptions += ["acknowledgement deadlines are driven by synthetic sweeps (ack.Queue.Expire with a time past every armed deadline)"]
    return c.finish(samples=samples, rule="case = one script of deliveries left unacknowledged, sweeps and client answers (right ack, wrong type, wrong id, silence, disconnect) over 1-3 subscribers")


def c05(tier=None):
    c = Check("C05", ["Wasp.Properties.Facts.Wiring", "Wasp.Properties.C05", "Wasp.Properties.C05C12E2E", "Wasp.Properties.C04", "Wasp.Properties.Facts.C05"], tier)
    c.build()
    samples = []
    scs = brokerlib.corpus(c.rng, ["inbound-outbound-id", "same-client-id-overlapping-qos2", "late-pubrel-after-timeout", "qos2-large-ids", "publish-workers-survive-failures", "local-log-fails-remote-accepts", "same-topic-before-and-after-remote-subscribe"])
    scs += [gen_faults(c.rng, c.rng.choice([1, 2, 3, 3])) for _ in range(n_of(c, 24, 300))]
    run_scenarios(c, "publish-under-write-failures", scs, samples)
    # the handshake table is the ack queue: its timers under real (sub-second) deadlines and sweep times
    from checks import c04
    c04.add_queue_suites(c, samples, exhaustive_n=2, n_random=n_of(c, 600, 10000))
    return c.finish(samples=samples, rule="case = one placement of subscribers over 1-3 nodes with 3-8 publishes (QoS 0/1/2, repeated PUBREL), each under a fresh pattern of local-log and remote-node write failures")


def c14(tier=None):
    c = Check("C14", ["Wasp.Properties.Facts.Wiring", "Wasp.Properties.C14", "Wasp.Properties.C03C14E2E", "Wasp.Properties.Reachable2", "Wasp.Properties.E2EMulti", "Wasp.Properties.Facts.C14"], tier)
    c.build()
    samples = []
    scs = brokerlib.corpus(c.rng, ["broken-recipient", "alternating-hosts", "unsubscribe-overtakes-subscribe", "publish-workers-survive-failures", "local-log-fails-remote-accepts", "same-topic-before-and-after-remote-subscribe"])
    scs += [gen_faults(c.rng, c.rng.choice([2, 3, 3])) for _ in range(n_of(c, 20, 250))]
    run_scenarios(c, "cross-node-placement-and-unreachable-subsets", scs, samples)
    scs = [gen_converged(c.rng, c.rng.choice([2, 3]), 1, c.rng.choice([10, 16]), {"pub": 8, "sub": 4}) for _ in range(n_of(c, 6, 80))]
    run_scenarios(c, "cross-node-routing", scs, samples)
    # "known to the publisher": the recipients the replicated subscription state resolves, over histories of additions and
    # removals; and "to no other node": nothing of a session that was displaced or has ended keeps attracting messages
    from checks import c01
    c01.add_bypattern_suite(c, samples)
    scs = [gen_lifecycle(c.rng, c.rng.choice([2, 3]), 1, takeover=0.5) for _ in range(n_of(c, 6, 80))]
    run_scenarios(c, "routing-after-take-over-and-session-end", scs, samples)
    run_scenarios(c, "everything-mixed", [brokerlib.gen_soup(c.rng, nn=c.rng.choice([2, 3])) for _ in range(n_of(c, 6, 100))], samples)
    # each hosting node delivers from its own log: a long history to a subscriber on the OTHER node, across the log's
    # segment and truncation boundaries
    run_scenarios(c, "cross-node-long-history-real-log", [brokerlib.gen_reallog(c.rng, 2300, nn=2)], samples)
    return c.finish(samples=samples, rule="case = one placement of publishers/subscribers over 2-3 nodes, publishes under every sampled subset of unreachable / failing destinations; each node's log and each client's packets observed")


def c11(tier=None):
    c = Check("C11", ["Wasp.Properties.Facts.Wiring", "Wasp.Properties.AnswerLost", "Wasp.Properties.C11Record", "Wasp.Properties.C11Reach", "Wasp.Properties.C01SessLit", "Wasp.Properties.C11", "Wasp.Properties.C11Time", "Wasp.Properties.Reachable", "Wasp.Properties.C09", "Wasp.Properties.C08", "Wasp.Properties.Facts.C11"], tier)
    c.build()
    samples = []
    scs = [gen_lifecycle(c.rng, c.rng.choice([1, 2, 3]), 1, takeover=0.15) for _ in range(n_of(c, 12, 160))]
    run_scenarios(c, "session-lifecycle-converged", scs, samples)
    scs = brokerlib.corpus(c.rng, ["removal-overtakes-creation", "takeover-out-of-order", "concatenation-collision", "suback-unwritable", "connack-unwritable", "empty-client-id-takeover", "returning-client-will"])
    scs += [gen_lifecycle(c.rng, c.rng.choice([2, 3]), 1, takeover=0.1, fine_gossip=True) for _ in range(n_of(c, 8, 120))]
    run_scenarios(c, "session-lifecycle-gossip-schedules", scs, samples)
    scs = [brokerlib.gen_answer_lost(c.rng) for _ in range(n_of(c, 5, 80))]
    run_scenarios(c, "session-ends-when-an-answer-cannot-be-written", scs, samples)
    brokerlib.add_refused_connect_suite(c, samples)
    run_scenarios(c, "everything-mixed", [brokerlib.gen_soup(c.rng) for _ in range(n_of(c, 8, 150))], samples)
    brokerlib.add_nodefail_suites(c, samples)
    # "disappear from every node's view": what a node broadcasts when it removes a failed peer's sessions and
    # subscriptions (and everything else it changes) makes a receiver list what the origin lists
    from checks import c09
    c09.add_origin_receiver_suites(c, samples, n_of(c, 120, 2000))
    brokerlib.add_timing_suites(c, samples)
    return c.finish(samples=samples, rule="case = one session script (connect, subscribe sets, publish, ping, DISCONNECT / connection loss / displacement) on 1-3 nodes; gossip fully delivered after each change (oracle on packets and on every node's listing) or link by link in random order (model comparison)")


def c12(tier=None):
    c = Check("C12", ["Wasp.Properties.Facts.Wiring", "Wasp.Properties.C11Record", "Wasp.Properties.C12", "Wasp.Properties.C05C12E2E", "Wasp.Properties.Facts.C12"], tier)
    c.build()
    samples = []
    scs = [gen_lifecycle(c.rng, c.rng.choice([1, 2, 2]), 1, takeover=0.6) for _ in range(n_of(c, 12, 160))]
    run_scenarios(c, "takeover-converged", scs, samples)
    scs = brokerlib.corpus(c.rng, ["takeover-out-of-order", "removal-overtakes-creation", "takeover-then-stale-snapshot", "takeover-with-unacked-delivery", "displacer-gone-before-ping", "concatenation-collision", "empty-client-id-takeover"])
    scs += [gen_lifecycle(c.rng, c.rng.choice([2, 3]), 1, takeover=0.5, fine_gossip=True) for _ in range(n_of(c, 8, 120))]
    run_scenarios(c, "takeover-gossip-schedules", scs, samples)
    run_scenarios(c, "everything-mixed", [brokerlib.gen_soup(c.rng, nn=c.rng.choice([2, 3])) for _ in range(n_of(c, 8, 150))], samples)
    return c.finish(samples=samples, rule="case = one script with pairs / chains of connections sharing a client identifier on the same or different nodes, old-session ping / subscribe / disconnect and gossip deliveries interleaved")


def c13(tier=None):
    c = Check("C13", ["Wasp.Properties.Facts.Wiring", "Wasp.Properties.AnswerLost", "Wasp.Properties.C11Record", "Wasp.Properties.C11Reach", "Wasp.Properties.C13", "Wasp.Properties.E2ERetainWill", "Wasp.Properties.Facts.C13"], tier)
    c.build()
    samples = []
    scs = [gen_converged(c.rng, c.rng.choice([1, 2, 3]), 1, c.rng.choice([8, 12]), {"end": 5, "connect": 4, "sub": 4, "pub": 2}) for _ in range(n_of(c, 12, 160))]
    run_scenarios(c, "wills-by-cause-and-placement", scs, samples)
    scs = brokerlib.corpus(c.rng, ["connack-unwritable", "suback-unwritable", "clean-end-overtakes-creation-then-node-fails", "removal-overtakes-creation", "returning-client-will", "publish-workers-survive-failures", "same-client-id-other-tenant-will"])
    scs += [brokerlib.gen_answer_lost(c.rng) for _ in range(n_of(c, 5, 80))]
    run_scenarios(c, "wills-corpus-and-lost-answers", scs, samples)
    run_scenarios(c, "everything-mixed", [brokerlib.gen_soup(c.rng) for _ in range(n_of(c, 8, 150))], samples)
    brokerlib.add_nodefail_suites(c, samples)
    return c.finish(samples=samples, rule="case = one script in which sessions with wills (topic, payload, QoS, retain varied) end by DISCONNECT or connection loss, watchers on 1-3 nodes; plus node-failure cases")


def c17(tier=None):
    c = Check("C17", ["Wasp.Properties.Facts.Wiring", "Wasp.Properties.C17", "Wasp.Properties.C01SessLit", "Wasp.Properties.C17E2E", "Wasp.Proofs.Generated", "Wasp.Properties.Facts.C17"], tier)
    c.build()
    samples = []
    scs = [gen_converged(c.rng, c.rng.choice([1, 2]), c.rng.choice([2, 3]), c.rng.choice([12, 18]), {"pub": 8, "sub": 5, "end": 2}) for _ in range(n_of(c, 10, 150))]
    run_scenarios(c, "tenants-publish-retain-will", scs, samples)
    scs = brokerlib.corpus(c.rng, ["same-client-id-two-tenants", "same-client-id-overlapping-qos2", "concatenation-collision", "topic-starts-with-mount-name", "same-client-id-other-tenant-will"])
    scs += [gen_lifecycle(c.rng, c.rng.choice([1, 2]), 2, takeover=0.6) for _ in range(n_of(c, 8, 120))]
    run_scenarios(c, "tenants-shared-client-ids", scs, samples)
    run_scenarios(c, "everything-mixed-two-tenants", [brokerlib.gen_soup(c.rng, mounts=c.rng.choice([2, 3])) for _ in range(n_of(c, 8, 150))], samples)
    # wills of a failed node's sessions stay inside their own mount points
    scs = [brokerlib.gen_nodefail(c.rng, clean=False, mounts=2) for _ in range(n_of(c, 1, 8))]
    # will topics that a path-cleaning helper would rewrite or move into another tenant
    scs += [brokerlib.gen_nodefail(c.rng, clean=False, mounts=2, wt=wt) for wt in (["w//t", "../w"] if c.tier == "quick" else ["w//t", "/w", "w/t/", "../w", "w/./t", "w/../t", "../../w"])]
    run_scenarios(c, "tenants-node-failure-wills", scs, samples)
    return c.finish(samples=samples, rule="case = one script with clients spread over 2-3 mount points using '#', '+/...' and literal filters, publishes / retained messages / wills, and client identifiers shared across mount points")


def c02(tier=None):
    c = Check("C02", ["Wasp.Properties.Facts.Wiring", "Wasp.Properties.C02", "Wasp.Properties.C02Pool", "Wasp.Properties.C02E2E", "Wasp.Properties.Reachable", "Wasp.Properties.C15", "Wasp.Properties.Facts.C15", "Wasp.Properties.Facts.C02"], tier)
    c.build()
    samples = []
    scs = brokerlib.corpus(c.rng, ["first-message", "slow-qos2", "inbound-outbound-id", "ids-return-after-recipient-vanished", "broken-recipient", "late-pubrel-after-timeout", "retransmit-then-next", "qos2-large-ids"])
    scs += [gen_converged(c.rng, 1, 1, c.rng.choice([10, 14]), {"pub": 10, "sub": 3, "unsub": 0.5, "end": 0.5}) for _ in range(n_of(c, 8, 100))]
    run_scenarios(c, "acked-publish-delivered", scs, samples)
    # acknowledged publishes must reach subscribers whose earlier QoS 1/2 exchanges are slow, time out and are resumed
    scs = [gen_retransmit(c.rng, 1) for _ in range(n_of(c, 8, 100))]
    scs += [brokerlib.gen_broken_recipient_qos(c.rng) for _ in range(n_of(c, 10, 100))]
    run_scenarios(c, "acked-publish-delivered-under-timeouts", scs, samples)
    # "acknowledged" presupposes that every hosting node's log took the message: publishes under failing logs / nodes
    scs = brokerlib.corpus(c.rng, ["local-log-fails-remote-accepts", "same-topic-before-and-after-remote-subscribe"]) + [gen_faults(c.rng, c.rng.choice([2, 3])) for _ in range(n_of(c, 8, 100))]
    run_scenarios(c, "acknowledged-only-if-stored-everywhere", scs, samples)
    brokerlib.add_reallog_suites(c, samples)
    # a delivery is dropped after the acknowledgement when its (session, identifier) key is taken: the key space of the table
    from checks import c04
    c04.add_key_space_suite(c, samples, n_of(c, 80, 1500))
    return c.finish(samples=samples, rule="case = one publish history (QoS mix, 1-3 publishers and subscribers); the real-log suite crosses the segment (500) and truncation (2000) boundaries and starts with the first message a node ever stores")

"""C10 — a full-state exchange brings a lagging node up to date.
Theorems: lean/Wasp/Properties/C10.lean (newer entries of A win on B, additions and removals; fresh node = A; both ways equal).
Tie: `dist` correspondence on real LocalState / MergeRemoteState bytes:
  histories on node 0 and node 1 (distinct clock offsets => tie-free), an arbitrary subset of the gossip between them
  delivered, then snapshot exchange 0->1, 1->0 or both, and 0->fresh node 2.
Monitor: python oracle on the stored entries (`full`): after A->B every key holds the newer of A's and B's entry; a fresh
node equals A; after both directions the two nodes are equal (stored and listed)."""
from checklib import Suite, Check
from checks import distlib
from checks.distlib import parse_full


def main(tier=None):
    c = Check("C10", ["Wasp.Properties.C10", "Wasp.Properties.Facts.C10"], tier)
    c.build()
    rng = c.rng
    samples = []
    ops, cases, checks = [], 0, []
    for _ in range(300 if c.tier == "quick" else 5000):
        ops += ["reset", "off 0 0", "off 1 5", "off 2 3"]
        watch = rng.random() < 0.5      # list the stores after every step: a store only moves forward
        sent = [0, 0, 0]  # upper bound on the payloads sent (ops that change nothing queue none: `nosuch` is then answered)
        for _ in range(rng.choice([2, 5, 9, 15])):
            n = rng.choice([0, 0, 1])
            ops.append(distlib.random_local_op(rng, n, bulk_bias=0.2))
            sent[n] += 1
            if watch:
                ops.append(f"full {n}")
            # some gossip gets through (now, or again much later: gossip is retransmitted), most of it is lost
            if rng.random() < 0.3 and sent[n] > 0:
                ops.append(f"deliver {n} {rng.randrange(sent[n])} {1 - n}")
                if watch:
                    ops.append(f"full {1 - n}")
            if rng.random() < 0.15:
                m = rng.choice([0, 1])
                if sent[m] > 0:
                    ops.append(f"deliver {m} {rng.randrange(sent[m])} {1 - m}")
                    if watch:
                        ops.append(f"full {1 - m}")
        mode = rng.choice(["a2b", "b2a", "both", "both"])
        ops += ["full 0", "full 1"]
        base = len(ops) - 2
        if rng.random() < 0.3:
            # the exchange happens a long time (8 h 20 min of the nodes' clocks) after the last change: removals are
            # part of the state however old they are
            ops += ["off 0 30000000000000", "off 1 30000000000005", "off 2 30000000000003"]
        if mode in ("a2b", "both"):
            ops += ["sync 0 1", "full 1"]
            checks.append(("newer", base, base + 1, len(ops) - 1))
        if mode == "b2a":
            ops += ["sync 1 0", "full 0"]
            checks.append(("newer", base + 1, base, len(ops) - 1))
        if mode == "both":
            ops += ["sync 1 0", "full 0", "full 1", "show 0", "show 1"]
            checks.append(("equal", len(ops) - 4, len(ops) - 3, None))
            checks.append(("equal", len(ops) - 2, len(ops) - 1, None))
        ops += ["full 0", "sync 0 2", "full 2", "show 0", "show 2"]
        checks.append(("equal", len(ops) - 5, len(ops) - 3, None))
        checks.append(("equal", len(ops) - 2, len(ops) - 1, None))
        cases += 1

    def mon(ops_, impl):
        out = []
        for kind, i, j, k in checks:
            if kind == "equal":
                if impl[i] != impl[j]:
                    out.append((j, "not-up-to-date", f"after the exchange `{ops_[j]}` = {impl[j]} but `{ops_[i]}` = {impl[i]}"))
            else:
                try:
                    a, b, after = parse_full(impl[i]), parse_full(impl[j]), parse_full(impl[k])
                except Exception as e:
                    out.append((k, "bad-output", str(e)))
                    continue
                exp = dict(b)
                for key, v in a.items():
                    if key not in exp or exp[key][0] < v[0]:
                        exp[key] = v
                if {k_: v[3] for k_, v in exp.items()} != {k_: v[3] for k_, v in after.items()}:
                    miss = [v[3] for k_, v in exp.items() if after.get(k_, (None,) * 4)[3] != v[3]]
                    out.append((k, "newer-entry-not-reflected", f"after merging the snapshot these newer entries (additions or removals) are not reflected: {miss[:4]}"))
        return out + distlib.monotone_store(ops_, impl)
    c.run_suite(Suite("snapshot-exchange", "dist", ops, mon, {"cases": cases, "nontrivial": cases}, resets=("reset",)))
    samples.append({"suite": "snapshot-exchange", "ops": ops[:22]})
    c.assumptions += ["tie-free across nodes (distinct clock offsets per node)", "protobuf marshal/unmarshal of the snapshot is a faithful round trip"]
    return c.finish(samples=samples,
                    rule="case = histories on two nodes with a random subset of gossip lost, followed by snapshot exchange A->B, B->A or both "
                         "and A->fresh node")

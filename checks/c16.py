"""C16 — clients are admitted iff their credentials match the configured store.
Theorems: lean/Wasp/Properties/C16.lean (literal sort.Search; iff over all tables; loader mount points; static store).
Tie: `auth` correspondence on the real auth.FileHandler (csv file on disk) and auth.StaticHandler:
  EVERY ordering of the credential lines for tables of up to 6 users (2-/3-field mix, empty third field, duplicate user
  names with different passwords/mount points), every candidate from {present, absent, swapped, empty};
  e2e refusal/acceptance through the connection manager is part of the broker suites (C11/C17 harness).
Monitor: python dict oracle — accept iff some line has that user and that password fingerprint; mount point = the line's
(default for 2-field / empty), rejected candidates are rejected."""
import hashlib
import itertools
from checklib import Suite, Check

USERS = ["alice", "bob", "carol", "dave", "erin", "frank"]


def fp(s):
    return hashlib.sha256(s.encode()).hexdigest()


def tok(s):
    return f"{s if s else '_'}={fp(s)}"


def line(user, pw, mount):
    base = f"{user}={fp(user)}:{fp(pw)}"
    if mount is None:
        return base
    return base + ":" + (mount if mount else "_")


def mk_monitor(meta):
    """meta: op index -> (expected-set-of-mounts or None for reject)"""
    def mon(ops, impl):
        out = []
        for i, exp in meta.items():
            res = impl[i]
            if exp == "par":
                if res != "par-mismatch=0":
                    out.append((i, "answer-depends-on-concurrent-logins", f"`{ops[i]}` -> {res}: asked by 16 set-up workers at once, the store answered differently than when asked alone"))
                continue
            if res.startswith("panic") or res in ("<no-output>", "loaderr", "nohandler"):
                out.append((i, "panic", f"`{ops[i][:60]}` -> {res}"))
                continue
            if exp is None:
                if res != "reject":
                    out.append((i, "admitted-without-match", f"candidate `{ops[i][:40]}…` matches no configured entry but got `{res}`"))
            else:
                if res == "reject":
                    out.append((i, "rejected-despite-match", f"candidate `{ops[i][:40]}…` matches a configured entry (mount {sorted(exp)}) but was rejected"))
                elif res.split(" ", 1)[1] not in exp:
                    out.append((i, "wrong-mount-point", f"candidate `{ops[i][:40]}…` placed in `{res}`, its entry says {sorted(exp)}"))
        return out
    return mon


CRC_TWINS = {"plumless": "buckeroo", "buckeroo": "plumless"}


def table_case(ops, meta, entries, par=0):
    """entries: list of (user, pw, mount-or-None)"""
    ops.append("file " + " ".join(line(*e) for e in entries))
    meta[len(ops) - 1] = "load"
    cands = set()
    for (u, p, m) in entries:
        cands.add((u, p))
        cands.add((p, u))          # swapped
        cands.add((u, ""))
        cands.add(("", p))
        cands.add((u, p + "x"))
        # long values are compared whole (a prefix of 64 bytes, one SHA-256 block, is another string)
        if len(u) > 64:
            cands.add((u[:64], p))
        if len(p) > 64:
            cands.add((u, p[:64]))
        # different strings with the same CRC-32 (whatever short-cut the store takes, it compares full digests)
        if p in CRC_TWINS:
            cands.add((u, CRC_TWINS[p]))
        if u in CRC_TWINS:
            cands.add((CRC_TWINS[u], p))
    for u in USERS[:len(entries) + 1]:
        cands.add((u, "nopass"))
    cands.add(("mallory", "pw1"))
    cands.add(("", ""))
    for (u, p) in sorted(cands):
        ops.append(f"auth {tok(u)} {tok(p)}")
        exp = {(m if m else "_default") for (eu, ep, m) in entries if eu == u and ep == p}
        meta[len(ops) - 1] = exp or None
    if par:
        ops.append(f"par {par}")
        meta[len(ops) - 1] = "par"


def add_e2e_suite(c, samples):
    """CONNECT packets through the real connection manager with the REAL credential store behind it: accepted exactly when
    the store matches (CONNACK 0, session in the entry's mount point), otherwise a refusal CONNACK (4) and no session,
    subscription or will; also in an order that exercises whatever the store remembers between calls (a successful login
    followed by candidates whose user+password concatenation is the same)."""
    from checks.brokerlib import monitor_for
    rng = c.rng
    ops, exp, cases = [], {}, 0
    tables = []
    for _ in range(6 if c.tier == "quick" else 60):
        n = rng.randint(1, 5)
        users = rng.sample(USERS, n)
        tables.append(("file", [(u, "pw" + u, rng.choice([None, "", "m1", "tenant" + u[0], "m1/", "/m1", "a/b"])) for u in users]))
    tables += [("file", [("ops", "pwops", "acme/"), ("dev", "pwdev", "acme"), ("qa", "pwqa", "/acme")]), ("file", [("eve", "plumless", "m1"), ("plumless", "pw1", None)]), ("static", ("admin", "plumless")),
               ("static", ("a" * 70, "s" * 70)), ("file", [("u" * 70, "pw1", "m1")]), ("static", ("admin", "secret")), ("static", ("", "b")), ("static", ("", "")), ("static", ("a", ""))]
    for kind, tab in tables:
        ops.append("reset 1")
        if kind == "file":
            ops.append("authfile " + " ".join(line(*e) for e in tab))
            entries = tab
        else:
            ops.append(f"authstatic {tab[0] or '_'} {tab[1] or '_'}")
            entries = [(tab[0], tab[1], None)]
        cands = []
        for (u, p, m) in entries:
            cands += [(u, p), (u, p + "x"), (p, u), (u, ""), ("", p), (u, p)]
            # same concatenation as a successful login, split elsewhere
            cat = u + p
            for cut in {0, 1, len(u) + 1 if len(u) + 1 <= len(cat) else 0, max(0, len(u) - 1), len(cat)}:
                cands.append((cat[:cut], cat[cut:]))
        cands += [("mallory", "pw1"), ("", "")]
        longs = [(u[:64], p) for (u, p, m) in entries if len(u) > 64] + [(u, p[:64]) for (u, p, m) in entries if len(p) > 64]
        cands = cands[:2] + longs + cands[2:]
        twins = [(CRC_TWINS.get(u, u), CRC_TWINS.get(p, p)) for (u, p, m) in entries if u in CRC_TWINS or p in CRC_TWINS]
        cands = cands[:2] + twins + cands[2:]
        if len(cands) > 14:
            cands = cands[:8] + rng.sample(cands[8:], 6)
        sess = []
        for k, (u, p) in enumerate(cands):
            name = f"h{k}"
            will = rng.choice(["-", "w/t:01:1:0"])
            ops.append(f"connectas {name} 0 cid{k} {tok(u)} {tok(p)} 60 {will}")
            mounts = {(m if m else "_default") for (eu, ep, m) in entries if eu == u and ep == p}
            if mounts:
                exp[len(ops) - 1] = ({name: ["connack(0)"]}, "rejected-despite-match")
                sess.append(f"S,S{name},cid{k},{sorted(mounts)[0]},1,{'-' if will == '-' else will}")
            else:
                exp[len(ops) - 1] = ({name: ["connack(4)"]}, "admitted-or-no-refusal-connack")
            cases += 1
        ops.append("state 0")
        exp[len(ops) - 1] = ("[" + " ".join(sorted(sess)) + "] [] [] [" + " ".join(sorted(x.split(",")[1] for x in sess)) + "]", "session-for-rejected-connect")
    # more connection set-ups FAIL (first packet is not CONNECT) than there are set-up workers; the store still answers
    ops.append("reset 1")
    ops.append("authstatic admin secret")
    for k in range(23):
        ops.append(f"open f{k} 0")
        ops.append(f"raw f{k} c000")
        exp[len(ops) - 1] = ({f"f{k}": ["CLOSED"]}, "connection-left-open-after-failed-set-up")
    ops.append(f"connectas good 0 cidg {tok('admin')} {tok('secret')} 60 -")
    exp[len(ops) - 1] = ({"good": ["connack(0)"]}, "rejected-despite-match")
    ops.append(f"connectas bad 0 cidb {tok('admin')} {tok('nope')} 60 -")
    exp[len(ops) - 1] = ({"bad": ["connack(4)"]}, "admitted-or-no-refusal-connack")
    cases += 2
    ops.append("bye")
    c.run_suite(Suite("connect-through-real-store", "broker", ops, monitor_for(exp), {"cases": cases, "nontrivial": cases},
                      resets=("reset",), retry_args=["200"]), timeout=1800)
    samples.append({"suite": "connect-through-real-store", "ops": [o[:140] for o in ops[:6]]})


def main(tier=None):
    c = Check("C16", ["Wasp.Properties.C16", "Wasp.Properties.C16Lit", "Wasp.Properties.Facts.C16"], tier)
    c.build()
    rng = c.rng
    samples = []
    ops, meta, cases = [], {}, 0
    # every ordering of tables of n users, n <= 6 (720 orders); mount-field pattern varied per table
    for n in range(0, 7):
        perms = list(itertools.permutations(USERS[:n]))
        if c.tier == "quick" and n >= 5:
            perms = rng.sample(perms, 60 if n == 6 else 60)
        for perm in perms:
            entries = []
            for k, u in enumerate(perm):
                mount = [None, "tenant" + u[0], "", None, "shared"][(USERS.index(u) + n) % 5]
                entries.append((u, "pw" + u, mount))
            table_case(ops, meta, entries)
            cases += 1
    # duplicate user names (different passwords / mount points), odd line shapes
    for _ in range(150 if c.tier == "quick" else 3000):
        n = rng.randint(1, 6)
        entries = []
        for _ in range(n):
            u = rng.choice(USERS[:3])
            entries.append((u, rng.choice(["pw1", "pw2", "pw" + u]), rng.choice([None, "", "m1", "m2"])))
        table_case(ops, meta, entries)
        cases += 1
    table_case(ops, meta, [("eve", "plumless", "m1"), ("plumless", "pw1", None), ("bob", "buckeroo", "")])
    table_case(ops, meta, [("u" * 70, "pw1", "m1"), ("bob", "p" * 65, None), ("x" * 64, "y" * 64, "")])
    cases += 2
    # the 20 set-up workers share the store: concurrent logins get the answers sequential logins get
    for _ in range(3 if c.tier == "quick" else 30):
        us = rng.sample(USERS, rng.randint(2, 6))
        table_case(ops, meta, [(u, "pw" + u, rng.choice([None, "", "m1", "tenant" + u[0]])) for u in us], par=20 if c.tier == "quick" else 200)
        cases += 1
    loads = {i for i, v in meta.items() if v == "load"}
    meta2 = {i: v for i, v in meta.items() if i not in loads}
    mon = mk_monitor(meta2)

    def mon_all(ops_, impl):
        out = [(i, "loader-failed", f"credential file rejected or loader crashed: {impl[i]}") for i in loads if impl[i] != "ok"]
        return out + mon(ops_, impl)
    c.run_suite(Suite("file-store-all-orders", "auth", ops, mon_all, {"cases": cases, "nontrivial": cases, "candidates": len(meta2)}, resets=("file",),
                      exhaustive=(c.tier == "thorough")))
    samples.append({"suite": "file-store-all-orders", "ops": [o[:120] for o in ops[:4]]})
    # static store
    ops, meta = [], {}
    L70, L64 = "k" * 70, "k" * 64
    for cu, cp in [("admin", "secret"), ("", ""), ("a", ""), ("", "b"), ("x", "x"), (L70, "secret"), ("admin", L70)]:
        ops.append(f"static {cu or '_'} {cp or '_'}")
        for u in ["admin", "secret", "", "a", "b", "x", "Admin", L70, L64]:
            for p in ["admin", "secret", "", "a", "b", "x", L70, L64]:
                ops.append(f"sauth {u or '_'} {p or '_'}")
                meta[len(ops) - 1] = {"_default"} if (u == cu and p == cp) else None
    c.run_suite(Suite("static-store", "auth", ops, mk_monitor(meta), {"cases": len(meta), "nontrivial": len(meta)}, resets=("static",), exhaustive=True))
    add_e2e_suite(c, samples)
    c.assumptions += ["SHA-256 fingerprints are injective (model: abstract injective H)", "encoding/csv splits well-formed lines at ':' (fields without quotes/colons)"]
    return c.finish(samples=samples,
                    rule="case = one credential table (one ordering of its lines) queried with every candidate derived from it: present, "
                         "swapped, empty user, empty password, wrong password, absent user")

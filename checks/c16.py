"""C16 — clients are admitted iff their credentials match the configured store.
Theorems: lean/Wasp/Properties/C16.lean (literal sort.Search; iff over all tables; loader mount points; static store).
Tie: `auth` correspondence on the real auth.FileHandler (csv file on disk) and auth.StaticHandler:
  EVERY ordering of the credential lines for tables of up to 6 users (2-/3-field mix, empty third field, duplicate user
  names with different passwords/mount points), every candidate from {present, absent, swapped, empty};
  e2e refusal/acceptance through the connection manager is part of the broker suites (C11/C17 harness).
Monitor: python dict oracle — accept iff some line has that user and that password fingerprint; mount point = the line's
(default for 2-field / empty), rejected candidates are rejected."""
import hashlib
import itertools
from checklib import Suite, Check

USERS = ["alice", "bob", "carol", "dave", "erin", "frank"]


def fp(s):
    return hashlib.sha256(s.encode()).hexdigest()


def tok(s):
    return f"{s if s else '_'}={fp(s)}"


def line(user, pw, mount):
    base = f"{user}={fp(user)}:{fp(pw)}"
    if mount is None:
        return base
    return base + ":" + (mount if mount else "_")


def mk_monitor(meta):
    """meta: op index -> (expected-set-of-mounts or None for reject)"""
    def mon(ops, impl):
        out = []
        for i, exp in meta.items():
            res = impl[i]
            if res.startswith("panic") or res in ("<no-output>", "loaderr", "nohandler"):
                out.append((i, "panic", f"`{ops[i][:60]}` -> {res}"))
                continue
            if exp is None:
                if res != "reject":
                    out.append((i, "admitted-without-match", f"candidate `{ops[i][:40]}…` matches no configured entry but got `{res}`"))
            else:
                if res == "reject":
                    out.append((i, "rejected-despite-match", f"candidate `{ops[i][:40]}…` matches a configured entry (mount {sorted(exp)}) but was rejected"))
                elif res.split(" ", 1)[1] not in exp:
                    out.append((i, "wrong-mount-point", f"candidate `{ops[i][:40]}…` placed in `{res}`, its entry says {sorted(exp)}"))
        return out
    return mon


def table_case(ops, meta, entries):
    """entries: list of (user, pw, mount-or-None)"""
    ops.append("file " + " ".join(line(*e) for e in entries))
    meta[len(ops) - 1] = "load"
    cands = set()
    for (u, p, m) in entries:
        cands.add((u, p))
        cands.add((p, u))          # swapped
        cands.add((u, ""))
        cands.add(("", p))
        cands.add((u, p + "x"))
    for u in USERS[:len(entries) + 1]:
        cands.add((u, "nopass"))
    cands.add(("mallory", "pw1"))
    cands.add(("", ""))
    for (u, p) in sorted(cands):
        ops.append(f"auth {tok(u)} {tok(p)}")
        exp = {(m if m else "_default") for (eu, ep, m) in entries if eu == u and ep == p}
        meta[len(ops) - 1] = exp or None


def main(tier=None):
    c = Check("C16", ["Wasp.Properties.C16"], tier)
    c.build()
    rng = c.rng
    samples = []
    ops, meta, cases = [], {}, 0
    # every ordering of tables of n users, n <= 6 (720 orders); mount-field pattern varied per table
    for n in range(0, 7):
        perms = list(itertools.permutations(USERS[:n]))
        if c.tier == "quick" and n >= 5:
            perms = rng.sample(perms, 60 if n == 6 else 60)
        for perm in perms:
            entries = []
            for k, u in enumerate(perm):
                mount = [None, "tenant" + u[0], "", None, "shared"][(USERS.index(u) + n) % 5]
                entries.append((u, "pw" + u, mount))
            table_case(ops, meta, entries)
            cases += 1
    # duplicate user names (different passwords / mount points), odd line shapes
    for _ in range(150 if c.tier == "quick" else 3000):
        n = rng.randint(1, 6)
        entries = []
        for _ in range(n):
            u = rng.choice(USERS[:3])
            entries.append((u, rng.choice(["pw1", "pw2", "pw" + u]), rng.choice([None, "", "m1", "m2"])))
        table_case(ops, meta, entries)
        cases += 1
    loads = {i for i, v in meta.items() if v == "load"}
    meta2 = {i: v for i, v in meta.items() if i not in loads}
    mon = mk_monitor(meta2)

    def mon_all(ops_, impl):
        out = [(i, "loader-failed", f"credential file rejected or loader crashed: {impl[i]}") for i in loads if impl[i] != "ok"]
        return out + mon(ops_, impl)
    c.run_suite(Suite("file-store-all-orders", "auth", ops, mon_all, {"cases": cases, "nontrivial": cases, "candidates": len(meta2)}, resets=("file",),
                      exhaustive=(c.tier == "thorough")))
    samples.append({"suite": "file-store-all-orders", "ops": [o[:120] for o in ops[:4]]})
    # static store
    ops, meta = [], {}
    for cu, cp in [("admin", "secret"), ("", ""), ("a", ""), ("", "b"), ("x", "x")]:
        ops.append(f"static {cu or '_'} {cp or '_'}")
        for u in ["admin", "secret", "", "a", "b", "x", "Admin"]:
            for p in ["admin", "secret", "", "a", "b", "x"]:
                ops.append(f"sauth {u or '_'} {p or '_'}")
                meta[len(ops) - 1] = {"_default"} if (u == cu and p == cp) else None
    c.run_suite(Suite("static-store", "auth", ops, mk_monitor(meta), {"cases": len(meta), "nontrivial": len(meta)}, resets=("static",), exhaustive=True))
    c.assumptions += ["SHA-256 fingerprints are injective (model: abstract injective H)", "encoding/csv splits well-formed lines at ':' (fields without quotes/colons)"]
    return c.finish(samples=samples,
                    rule="case = one credential table (one ordering of its lines) queried with every candidate derived from it: present, "
                         "swapped, empty user, empty password, wrong password, absent user")

from checks.brokerchecks import c12 as main

"""C20 — shared broker state is safe under concurrent use.
Theorems: lean/Wasp/Properties/C20.lean (lockset discipline => data-race freedom for every schedule; resolution accounting of
the multi-step in-flight operations for every interleaving) and Properties/C20Table.lean (the lock discipline table of the
shared structures, REGENERATED from the Go source on every run, satisfies the discipline — by `decide`).
Tie: the table extractor (extract/locks.go); the atomic-step decomposition of ack.Queue is hand-written (fact
`ackFiresOnlyIfClaimed`). SUPPORT (not proof): randomized stress of every shared structure on all cores, plain and
under the Go race detector, with post-stress invariants — a data-race report or a broken invariant is a concrete
failing schedule; the absence of one proves nothing.
What cannot be exhibited: the Go memory model (sequentially consistent interleavings assumed), the lock-free hash
(assumed linearisable), scheduler fairness. Claimed partial."""
from checklib import Suite, Check, HARNESS_BIN

EXPECT = {
    "idpool": "duplicates=0 out-of-range=0 free-at-end=4000",
    "ackq": "resolved-twice=0 unresolved=0",
    "tries": "missing-in-subscription-index=0 missing-in-retained-store=0",
    "dist": "sessions-missing=0 subscriptions-missing=0 retained-missing=0 replica-sessions-missing=0 replica-subscriptions-missing=0 replica-retained-missing=0 same-key-writers-diverged=0",
    "registry": "registry-missing=0 leftover-filters=0 contended-imbalance=0",
    "hotkey": "same-key-writers-diverged=0",
}


def main(tier=None):
    c = Check("C20", ["Wasp.Properties.C20", "Wasp.Properties.C20Table", "Wasp.Properties.C20Lift", "Wasp.Properties.Facts.C20"], tier)
    c.build()
    race_ok = c.build_race_harness()
    ms = 700 if c.tier == "quick" else 6000
    rounds = 2 if c.tier == "quick" else 6
    samples = []
    for name, binary, env in (("stress-plain", None, None),
                              ("stress-race-detector", HARNESS_BIN + "-race", {"GORACE": "halt_on_error=1 exitcode=66"})):
        if binary and not race_ok:
            continue
        ops = [f"stress {w} {ms} {c.seed * 100 + r}" for r in range(rounds) for w in EXPECT]

        def mon(ops_, impl):
            out = []
            for i, (op, res) in enumerate(zip(ops_, impl)):
                what = op.split()[1]
                if res == "<no-output>":
                    continue   # the process died: reported with its stderr (race report) by the engine
                if res != EXPECT[what]:
                    out.append((i, "post-stress-invariant", f"`{op}` on {16} goroutines: {res} (expected {EXPECT[what]})"))
            return out
        c.run_suite(Suite(name, "stress", ops, mon, {"cases": len(ops), "nontrivial": len(ops), "goroutines": 16, "ms_each": ms},
                          resets=("stress",), compare=False, binary=binary, env=env), timeout=3000)
        samples.append({"suite": name, "ops": ops[:5]})
    # goroutines that took their deadlines concurrently register them in either order: the in-flight queue under
    # same-second deadlines arriving out of order, sequentially (model comparison) and from 16 goroutines
    from checks import c04
    c04.add_queue_suites(c, samples, exhaustive_n=2, n_random=300 if c.tier == "quick" else 5000)
    c04.add_concurrent_suite(c, samples)
    c.assumptions += ["sequentially consistent interleavings of the extracted atomic actions (DRF argument)", "gotomic.Hash is linearisable",
                      "sync.Mutex / sync.RWMutex provide mutual exclusion"]
    return c.finish(samples=samples,
                    rule="obligations: theorems + regenerated lock table; stress cases = one randomized concurrent workload (16 goroutines) per "
                         "shared structure per round, plain and race-instrumented, each followed by its post-stress invariant")

from checks.brokerchecks import c13 as main

"""C18 — no client input can crash the broker or stall other clients.
Theorems: lean/Wasp/Properties/C18.lean over Wasp/Model/Wire.lean (byte-level decoder model with explicit panic outcome) and
the session wrappers of Wasp/Model/Broker.lean: whatever the bytes, the outcome is confined to that connection.
Tie: `broker` correspondence: valid packets and structure-aware mutations (truncation at every offset, flipped type/flag
nibbles, corrupted remaining length incl. 5-byte and maximal 4-byte forms, corrupted length prefixes, QoS 3, empty topic
lists, identifier 0, server-to-client packet types, oversized payload), sent before CONNECT and inside an established
session, whole or split, followed by a connection close; after EVERY hostile stream a witness pair does a publish/receive
round trip through the same broker.
Monitor: the harness process survives, the witness message arrives, the witnesses are never disconnected."""
from checks.brokerlib import canon_async_acks as brokerlib_canon
from checklib import Suite, Check
from checks import wirelib
from checks.brokerlib import parse_out


def declared_length(b):
    """the remaining length a byte string announces (the model would build a zero-padded body of that size)"""
    n, mult = 0, 1
    for x in b[1:5]:
        n += (x & 127) * mult
        mult *= 128
        if x < 128:
            return n
    return 0


def main(tier=None):
    c = Check("C18", ["Wasp.Properties.Facts.Wiring", "Wasp.Properties.AnswerLost", "Wasp.Properties.C18", "Wasp.Properties.Facts.C18", "Wasp.Properties.C18E2E", "Wasp.Properties.WireRoundTrip"], tier)
    c.build()
    rng = c.rng
    samples = []
    streams = []
    for name, b in wirelib.valid_packets(rng):
        streams.append((name, b))
        muts = wirelib.mutations(rng, name, b)
        if c.tier == "quick":
            muts = rng.sample(muts, min(len(muts), 9))
        streams += muts
    streams += wirelib.special_packets()
    rng.shuffle(streams)
    if c.tier == "quick":
        streams = streams[:230]
    ops, witness, cases = [], {}, 0
    per_reset = 12
    for k, (label, b) in enumerate(streams):
        if k % per_reset == 0:
            ops += ["reset 1", "connect w1 0 wid1 mp 60 -", "connect w2 0 wid2 mp 60 -", "sub w1 1 wit:0"]
        h = f"h{k}"
        in_session = rng.random() < 0.6
        if in_session:
            ops.append(f"connect {h} 0 hid{k} mp 60 " + rng.choice(["-", "-", "hw/t:01:0:0"]))
        else:
            ops.append(f"open {h} 0")
        hx = b.hex() or "-"
        if len(b) > 2 and rng.random() < 0.3:
            cut = rng.randrange(1, len(b))
            ops.append(f"raw {h} {b[:cut].hex()}")
            ops.append(f"raw {h} {b[cut:].hex()}")
        elif len(b) == 0:
            pass
        else:
            ops.append(f"raw {h} {hx}")
        if rng.random() < 0.35:
            # a second packet on the same connection
            ops.append(f"raw {h} {rng.choice([wirelib.PINGREQ, wirelib.publish('wit', b'zz', 0), wirelib.DISCONNECT]).hex()}")
        pl = "%04x" % (k % 65536)
        ops.append(f"pub w2 wit {pl} 0 0 0 1")
        witness[len(ops) - 1] = pl
        ops.append(f"drop {h}")
        cases += 1
        if k % per_reset == per_reset - 1 or k == len(streams) - 1:
            ops.append("state 0")

    def mon(ops_, impl):
        out = []
        for i, line in enumerate(impl):
            if line.startswith("panic") or line == "<no-output>":
                out.append((i, "broker-crashed", f"`{ops_[i][:80]}` -> {line[:200]}"))
                continue
            if " | " in line:
                _, got = parse_out(line)
                for w in ("w1", "w2"):
                    if "CLOSED" in got.get(w, []):
                        out.append((i, "witness-disconnected", f"`{ops_[i][:80]}` closed the connection of bystander {w}"))
            if i in witness:
                _, got = parse_out(line)
                want = f"publish(t=wit,p={witness[i]},q=0,r=0,d=0)"
                if want not in got.get("w1", []):
                    out.append((i, "witness-stalled", f"after the preceding hostile stream the witness publish {witness[i]} did not reach the witness subscriber: {line[:200]}"))
        return out
    ops.append("bye")
    c.run_suite(Suite("hostile-streams-with-witness", "broker", ops, mon, {"cases": cases, "nontrivial": cases}, resets=("reset",), retry_args=["200"], canon=brokerlib_canon), timeout=3000)
    samples.append({"suite": "hostile-streams-with-witness", "ops": [o[:100] for o in ops[4:12]]})
    # the decoder model against the real decoder, byte string by byte string (each followed by end of input)
    dec_ops = []
    for name, b in wirelib.valid_packets(rng) + wirelib.special_packets():
        if len(b) > 600:
            continue
        dec_ops.append(f"dec {b.hex() or '-'}")
        for label, mb in wirelib.mutations(rng, name, b):
            if len(mb) < 4000 and declared_length(mb) < 100000:
                dec_ops.append(f"dec {mb.hex() or '-'}")
    for _ in range(2000 if c.tier == "quick" else 60000):
        n = rng.choice([1, 2, 3, 5, 8, 13, 30])
        first = rng.choice([0x10, 0x30, 0x32, 0x34, 0x40, 0x50, 0x62, 0x70, 0x82, 0xa2, 0xc0, 0xe0, rng.randrange(256)])
        body = bytes(rng.choice([0, 0, 1, 2, 4, rng.randrange(256)]) for _ in range(n))
        dec_ops.append("dec " + (bytes([first, rng.choice([len(body), len(body), rng.randrange(0, 20)])]) + body).hex())
    kinds = {}

    def dec_mon(ops_, impl):
        for r in impl:
            kinds[r.split(" ", 1)[0]] = kinds.get(r.split(" ", 1)[0], 0) + 1
        return []
    c.run_suite(Suite("decoder-correspondence", "wire", dec_ops, dec_mon, {"cases": len(dec_ops), "nontrivial": len(dec_ops), "outcomes": kinds}, resets=("dec",)))
    samples.append({"suite": "decoder-correspondence", "ops": dec_ops[:6]})
    from checks import brokerlib
    scs = brokerlib.corpus(c.rng, ["ids-return-after-recipient-vanished", "setup-workers-survive-panics", "split-length-field-among-many", "fanout-unacked-retransmit", "same-client-id-overlapping-qos2", "suback-unwritable", "connack-unwritable", "publish-workers-survive-failures", "qos2-large-ids"])
    scs += [brokerlib.gen_abandoned_exchanges(c.rng) for _ in range(3 if c.tier == "quick" else 40)]
    scs += [brokerlib.gen_answer_lost(c.rng) for _ in range(3 if c.tier == "quick" else 40)]
    scs += [brokerlib.gen_broken_recipient_qos(c.rng) for _ in range(3 if c.tier == "quick" else 40)]
    brokerlib.run_scenarios(c, "abandoned-exchanges-with-witness", scs, samples)
    brokerlib.add_refused_connect_suite(c, samples)
    brokerlib.run_scenarios(c, "everything-mixed", [brokerlib.gen_soup(c.rng) for _ in range(6 if c.tier == "quick" else 100)], samples)
    # a connection that is superseded and then ends must not take anybody else down with it
    scs = brokerlib.corpus(c.rng, ["displacer-gone-before-ping", "takeover-with-unacked-delivery", "returning-client-will"])
    scs += [brokerlib.gen_lifecycle(c.rng, c.rng.choice([1, 2]), 1, takeover=0.6) for _ in range(4 if c.tier == "quick" else 60)]
    brokerlib.run_scenarios(c, "superseded-connections", scs, samples)
    c.assumptions += ["the MQTT decoder (module cache) is modelled, not verified", "memory exhaustion and a client that stops READING (writer blocked until its deadline) are outside the model: partial for 'stall'"]
    return c.finish(samples=samples,
                    rule="case = one hostile byte stream (valid packet or structure-aware mutation), before CONNECT or inside a session, whole or "
                         "split, followed by a witness publish/receive round trip and a close; distinct by (packet kind, mutation)")

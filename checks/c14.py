from checks.brokerchecks import c14 as main

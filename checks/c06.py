"""C06 — packet identifiers in flight are unique and never leak.
Theorems: lean/Wasp/Properties/C06.lean over the model lean/Wasp/Model/IdPool.lean.
Tie: black-box correspondence of Get/Put answers with the real simpleMidPool (hook VerifNewMIDPool):
  - exhaustive: every reachable allocator state x every call (incl. free / out-of-range Put) for small ranges,
    sequences produced by the model driver's BFS, each followed by a drain that observes the whole free set
  - long seeded random histories on the production range 0..65535 and on tiny ranges
  - writer level (domain `writerpool`): ids of PUBLISH packets written by the real writer with a tiny pool
Monitor (python mirror of Wasp.IdPool.traceOk): ids in range, never outstanding, -1 only when exhausted, no panic."""
import subprocess
import checklib
from checklib import Suite, Check, MODEL_BIN


def monitor(ops, impl):
    out = []
    mn = mx = None
    outstanding = set()
    for i, (op, res) in enumerate(zip(ops, impl)):
        f = op.split()
        if res.startswith("panic") or res == "<no-output>":
            out.append((i, "panic", f"call `{op}` panicked / killed the process: {res}"))
            continue
        if f[0] == "new":
            mn, mx = int(f[1]), int(f[2])
            outstanding = set()
        elif f[0] == "get":
            try:
                v = int(res)
            except ValueError:
                out.append((i, "bad-output", f"`{op}` answered {res}"))
                continue
            if v == -1 and mn >= 0:
                if len(outstanding) != mx - mn + 1:
                    out.append((i, "false-exhaustion", f"Get reported exhaustion with {mx - mn + 1 - len(outstanding)} identifiers free"))
            elif v < mn or v > mx:
                out.append((i, "out-of-range", f"Get returned {v} outside [{mn},{mx}]"))
            elif v in outstanding:
                out.append((i, "duplicate-id", f"Get returned {v} which is still outstanding"))
            else:
                outstanding.add(v)
        elif f[0] == "put":
            outstanding.discard(int(f[1]))
    return out


def gen_random(rng, mn, mx, n, bias_full=False):
    ops = [f"new {mn} {mx}"]
    held = []
    for _ in range(n):
        r = rng.random()
        if r < (0.62 if bias_full else 0.5) or not held:
            ops.append("get")
            held.append(None)  # unknown id: tracked by monitor; we release by guess below
        elif r < 0.85:
            # release an id that is probably outstanding: low ids are handed out first
            ops.append(f"put {rng.randint(mn, min(mx, mn + max(1, len(held))))}")
            if held:
                held.pop()
        elif r < 0.93:
            ops.append(f"put {rng.randint(mn, mx)}")
        else:
            ops.append(f"put {rng.choice([mn - 1, mx + 1, mn - 7, mx + 1000, -1, 65536])}")
    return ops


def main(tier=None):
    c = Check("C06", ["Wasp.Properties.C06", "Wasp.Properties.C06Lit", "Wasp.Properties.Facts.C06"], tier)
    c.build()
    rng = c.rng
    samples = []
    # 1. exhaustive state coverage on small ranges (sequences enumerated by the model itself)
    ranges = [(0, 2), (0, 3), (1, 4), (5, 8)] + ([(0, 5), (3, 9), (0, 7)] if c.tier == "thorough" else [])
    if c.model_ok:
        for mn, mx in ranges:
            p = subprocess.run([MODEL_BIN, "idpool-bfs", str(mn), str(mx)], stdout=subprocess.PIPE, stderr=subprocess.PIPE, text=True)
            ops = p.stdout.split("\n")[:-1]
            info = dict(kv.split("=") for kv in p.stderr.split())
            st = {"cases": int(info.get("sequences", 0)), "nontrivial": int(info.get("sequences", 0)),
                  "states": int(info.get("states", 0)), "range": [mn, mx]}
            c.run_suite(Suite(f"idpool-bfs-{mn}-{mx}", "idpool", ops, monitor, st, exhaustive=True))
            if len(samples) < 2:
                samples.append({"suite": f"idpool-bfs-{mn}-{mx}", "ops": ops[-12:]})
    # 2. random histories
    n_hist = 40 if c.tier == "quick" else 400
    ops = []
    cases = 0
    for k in range(n_hist):
        mn = rng.choice([0, 0, 1, 5])
        mx = mn + rng.choice([0, 1, 2, 3, 5, 9, 30])
        ops += gen_random(rng, mn, mx, rng.choice([20, 60, 200]), bias_full=True)
        cases += 1
    c.run_suite(Suite("idpool-random-small", "idpool", ops, monitor, {"cases": cases, "nontrivial": cases}))
    samples.append({"suite": "idpool-random-small", "ops": ops[:14]})
    big = gen_random(rng, 0, 65535, 200000 if c.tier == "quick" else 1500000)
    c.run_suite(Suite("idpool-random-production-range", "idpool", big, monitor, {"cases": 1, "nontrivial": 1}))
    # exhaust the production range completely once, then release and re-acquire
    full = ["new 0 65535"] + ["get"] * 65538 + [f"put {i}" for i in (0, 65535, 4000, 4001, 3999, 70000, 4000)] + ["get"] * 7
    c.run_suite(Suite("idpool-exhaust-production-range", "idpool", full, monitor, {"cases": 1, "nontrivial": 1}))
    # 3. writer level: message ids of PUBLISH packets written by the real writer over a tiny pool
    from checks import writerlib
    writerlib.add_pool_suites(c, samples)
    # an identifier stays taken while its delivery is being retransmitted (whole broker, production pool)
    from checks import brokerlib
    brokerlib.run_scenarios(c, "identifier-in-use-while-retransmitted", brokerlib.corpus(rng, ["retransmit-then-next", "fanout-unacked-retransmit", "slow-qos2"]) + [brokerlib.gen_broken_recipient_qos(rng) for _ in range(10 if c.tier == "quick" else 100)], samples)
    # an identifier comes back when its exchange is acknowledged or expires: the real in-flight queue under real deadlines
    from checks import c04
    c04.add_queue_suites(c, samples, exhaustive_n=2, n_random=600 if c.tier == "quick" else 10000)
    return c.finish(samples=samples,
                    rule="cases = op sequences (one per `new`); BFS suites enumerate every reachable model state x every call "
                         "(get, put of each id in range and one below/above) + drain; non-trivial = sequence contains at least one "
                         "Get after a Put or reaches exhaustion (all BFS sequences do by construction)")

"""C01 — a publish reaches exactly the sessions whose filters match its topic.
Theorems: lean/Wasp/Properties/C01.lean (walk characterisation by MQTT matching, exactly once, history independence,
ByPattern / recipient resolution; Topic.Next regenerated from the Go source).
Tie: (1) `subtree`: ALL 1554 filters of <=4 levels over {a,b,c,+,#,empty} stored at once and in random subsets, in random
insert/remove/re-insert orders, walked with ALL 340 topics of <=4 levels over {a,b,c,empty} (+ longer random ones);
(2) `dist`: subscribe / unsubscribe / re-subscribe histories on real SubscriptionsState, ByPattern for every topic;
(3) `broker`: PUBLISH packets read by net.Pipe clients of the in-process broker (checks/brokerlib.py).
Monitor: the MQTT matching relation itself (python mirror of Wasp.Topic.mqttMatch) applied to the implementation's answers."""
from checklib import Suite, Check
from checks.trielib import all_level_lists, mqtt_match, enc, parse_list

FALPHA = ["a", "b", "c", "+", "#", ""]
TALPHA = ["a", "b", "c", ""]


def hexid(i):
    return "%04x" % (i + 1)


def walk_monitor(expect):
    """expect: op index -> sorted list of expected non-empty data"""
    def mon(ops, impl):
        out = []
        for i, exp in expect.items():
            res = impl[i]
            if not res.startswith("["):
                out.append((i, "panic", f"`{ops[i]}` -> {res}"))
                continue
            got = sorted(x for x in parse_list(res) if x != "-")
            if got != exp:
                missing = [x for x in exp if x not in got][:3]
                extra = [x for x in got if x not in exp][:3]
                dup = sorted({x for x in got if got.count(x) > 1})[:3]
                out.append((i, "wrong-match-set", f"`{ops[i]}`: missing filters {missing}, unexpected {extra}, repeated {dup} (ids are hex indexes into the case's filter list)"))
        return out
    return mon


def add_bypattern_suite(c, samples):
    rng = c.rng
    # 2. ByPattern on the replicated subscription state: histories leading to the same active set
    ops, expect, cases = [], {}, 0
    pats = ["mp/a", "mp/a/b", "mp/a/#", "mp/+/b", "mp/#", "mp/+", "mp/a//b", "mp//", "mp/a/+", "mq/a", "mq/#"]
    tops = ["mp/a", "mp/a/b", "mp/b/b", "mp", "mp/", "mp/a//b", "mp//", "mq/a", "mp/a/b/c"]
    for _ in range(150 if c.tier == "quick" else 3000):
        ops.append("reset")
        active = {}
        for _ in range(rng.choice([2, 5, 9, 14])):
            s, p = rng.choice(["s1", "s2", "s3"]), rng.choice(pats)
            r = rng.random()
            if r < 0.6:
                q = rng.choice([0, 1, 2])
                ops.append(f"subcreate 0 {s} {p} {q}")
                active[(s, p)] = q
            elif r < 0.85:
                ops.append(f"subdelete 0 {s} {p}")
                active.pop((s, p), None)
            else:
                ops.append(f"subdelsess 0 {s}")
                for k in [k for k in active if k[0] == s]:
                    active.pop(k)
        # the same active set as seen by a peer that got the broadcasts (some twice: gossip echoes, full-state sync)
        replica = rng.random() < 0.5
        if replica:
            ops += ["deliverall 0 1", "deliverall 0 1", "sync 0 1"]
        for t in tops:
            for node in ((0, 1) if replica else (0,)):
                ops.append(f"byp {node} {t}")
                expect[len(ops) - 1] = sorted(f"U,{s},{p},1,{q}" for (s, p), q in active.items() if mqtt_match(p.split("/"), t.split("/")))
                cases += 1

    def byp_mon(ops_, impl):
        out = []
        for i, exp in expect.items():
            if not impl[i].startswith("["):
                out.append((i, "panic", f"`{ops_[i]}` -> {impl[i]}"))
            elif sorted(parse_list(impl[i])) != exp:
                out.append((i, "wrong-recipients", f"`{ops_[i]}` = {impl[i]}, active subscriptions whose filter matches: {exp}"))
        return out
    c.run_suite(Suite("bypattern-histories", "dist", ops, byp_mon, {"cases": cases, "nontrivial": cases}, resets=("reset",)))
    samples.append({"suite": "bypattern-histories", "ops": ops[:10]})


def main(tier=None):
    c = Check("C01", ["Wasp.Properties.C01", "Wasp.Properties.C01SessLit", "Wasp.Properties.E2E", "Wasp.Properties.E2EMulti", "Wasp.Properties.Reachable2"], tier)
    c.build()
    rng = c.rng
    samples = []
    filters = list(all_level_lists(FALPHA, 4))
    topics = list(all_level_lists(TALPHA, 4))
    ops, expect, cases = [], {}, 0
    # 1a. every filter at once, every topic
    ops.append("new")
    order = list(range(len(filters)))
    rng.shuffle(order)
    for i in order:
        ops.append(f"set {enc(filters[i])} {hexid(i)}")
    for t in topics:
        ops.append(f"walk {enc(t)}")
        expect[len(ops) - 1] = sorted(hexid(i) for i, f in enumerate(filters) if mqtt_match(f, t))
        cases += 1
    # 1b. random subsets, random histories (insert, remove, re-insert) leading to the subset
    nsub = 150 if c.tier == "quick" else 3000
    for _ in range(nsub):
        k = rng.choice([1, 1, 2, 3, 5, 8, 20])
        # bias towards filters that share prefixes with each other
        base = rng.choice(filters)
        cand = [f for f in filters if f[:1] == base[:1] or f[0] in ("+", "#")]
        active = rng.sample(range(len(cand)), min(k, len(cand)))
        ops.append("new")
        hist = []
        for i in active:
            hist.append(("set", i))
            if rng.random() < 0.3:
                hist += [("del", i), ("set", i)]
        noise = rng.sample(range(len(cand)), min(3, len(cand)))
        for i in noise:
            if i not in active:
                hist += [("set", i), ("del", i)]
        rng.shuffle(hist)
        # keep per-filter order: a filter's final state must be `set` for active, `del` for noise
        final = {i: "set" for i in active}
        final.update({i: "del" for i in noise if i not in active})
        for op, i in hist:
            ops.append(f"set {enc(cand[i])} {hexid(i) if op == 'set' else '-'}")
        for i, st in final.items():
            ops.append(f"set {enc(cand[i])} {hexid(i) if st == 'set' else '-'}")
        if rng.random() < 0.3:
            ops.append("dumpload")
        for t in (topics if len(topics) < 400 and rng.random() < 0.15 else rng.sample(topics, 25)):
            ops.append(f"walk {enc(t)}")
            expect[len(ops) - 1] = sorted(hexid(i) for i in active if mqtt_match(cand[i], t))
            cases += 1
    c.run_suite(Suite("trie-all-filters-all-topics", "subtree", ops, walk_monitor(expect), {"cases": cases, "nontrivial": cases, "filters": len(filters), "topics": len(topics)},
                      exhaustive=True))
    samples.append({"suite": "trie-all-filters-all-topics", "ops": ops[1:4] + ops[len(filters) + 1:len(filters) + 4]})
    # 1c. longer alphabets / deeper topics (seeded random)
    ops, expect, cases = [], {}, 0
    words = ["a", "b", "dev", "x1", "", "+", "#", "$SYS", "a b".replace(" ", "_")]
    for _ in range(100 if c.tier == "quick" else 2000):
        fl = [[rng.choice(words) for _ in range(rng.randint(1, 7))] for _ in range(rng.randint(1, 12))]
        fl = [f for j, f in enumerate(fl) if f not in fl[:j]]
        ops.append("new")
        for i, f in enumerate(fl):
            ops.append(f"set {enc(f)} {hexid(i)}")
        for _ in range(12):
            t = [rng.choice(["a", "b", "dev", "x1", "", "$SYS", "a_b"]) for _ in range(rng.randint(1, 7))]
            if rng.random() < 0.5:
                # derive the topic from a filter so that matches are common
                f = rng.choice(fl)
                t = [rng.choice(["a", "dev", ""]) if l == "+" else l for l in f if l != "#"] or ["a"]
                if f[-1] == "#" and rng.random() < 0.6:
                    t += [rng.choice(["a", "", "x1"]) for _ in range(rng.randint(0, 2))]
            ops.append(f"walk {enc(t)}")
            expect[len(ops) - 1] = sorted(hexid(i) for i, f in enumerate(fl) if mqtt_match(f, t))
            cases += 1
    c.run_suite(Suite("trie-random-deep", "subtree", ops, walk_monitor(expect), {"cases": cases, "nontrivial": cases}))
    add_bypattern_suite(c, samples)
    from checks import brokerlib
    brokerlib.add_c01_suites(c, samples)
    return c.finish(samples=samples,
                    rule="case = one (filter set, topic) query; the exhaustive suite stores every filter of <=4 levels over {a,b,c,+,#,empty} "
                         "and walks every topic of <=4 levels over {a,b,c,empty}; subsets are reached by shuffled insert/remove/re-insert histories")

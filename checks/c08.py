"""C08 — replicas converge regardless of delivery order, duplication and batching.
Theorems: lean/Wasp/Properties/C08.lean (LWW characterisation + convergence of the three stores; crdt functions regenerated).
Tie: `dist` correspondence on real distributed.State:
  - update multisets (tie-free timestamps, adds and removes, same and neighbouring keys) delivered in EVERY permutation,
    each with random duplication and batching (protobuf concatenation = batching);
  - gossip of real local operations issued with offset clocks, delivered to two receivers in different orders.
Monitor: python LWW oracle — every replica stores, per key, the update with the greatest timestamp; all replicas equal."""
import itertools
from checklib import Suite, Check
from checks import distlib
from checks.distlib import parse_full, lww_expected, inj_to_full, visible_of, full_of


def gen_updates(rng, k):
    """k tie-free updates over 2 keys + a neighbour key, per store kind"""
    ups = []
    used = set()
    for _ in range(k):
        kind = rng.choice("SSUUURR")
        while True:
            a = rng.choice([0, rng.randint(1, 60)])
            d = rng.choice([0, 0, rng.randint(1, 60)])
            if (a or d) and a != d and max(a, d) not in used:
                break
        used.add(max(a, d))
        if kind == "S":
            ups.append(f"S,{rng.choice(['s1', 's2'])},{rng.choice(['c1', 'c2'])},mp,{rng.choice([1, 2])},{a},{d}")
        elif kind == "U":
            sess, pat = rng.choice([("s1", "mp/a/b"), ("s2", "mp/a/b"), ("s1", "mp/a/#"), ("s1", "mp/a")])
            ups.append(f"U,{sess},{pat},{rng.choice([1, 2])},{rng.choice([0, 1])},{a},{d}")
        else:
            ups.append(f"R,{rng.choice(['mp/a', 'mp/a/b', 'mp/a'])},{rng.choice(['01', '02'])},{a},{d}")
    return ups


def deliveries(rng, perm):
    """random duplication + batching of one arrival order -> list of inj payloads"""
    seq = []
    for u in perm:
        seq.append(u)
        if rng.random() < 0.25:
            seq.insert(rng.randrange(len(seq) + 1), u)
    out, i = [], 0
    while i < len(seq):
        n = rng.choice([1, 1, 2, 3])
        out.append(";".join(seq[i:i + n]))
        i += n
    return out, seq


def monitor_perm(expected_by_idx):
    def mon(ops, impl):
        out = []
        for i, (kind, exp) in expected_by_idx.items():
            if impl[i] != exp:
                out.append((i, "lww-divergence", f"replica {kind} after its deliveries = {impl[i]}, the greatest-timestamp update per key gives {exp}"))
        return out
    return mon


def main(tier=None):
    c = Check("C08", ["Wasp.Properties.C08", "Wasp.Proofs.Generated"], tier)
    c.build()
    rng = c.rng
    samples = []
    # --- suite 1: every permutation of small tie-free update sets
    nsets = 60 if c.tier == "quick" else 600
    ops, expected, cases = [], {}, 0
    for _ in range(nsets):
        k = rng.choice([2, 3, 4] if c.tier == "quick" else [3, 4, 5])
        ups = gen_updates(rng, k)
        for perm in itertools.permutations(ups):
            payloads, seq = deliveries(rng, list(perm))
            ops.append("reset")
            for p in payloads:
                ops.append(f"inj 1 {p}")
            st = lww_expected([inj_to_full(u) for u in seq])
            ops.append("full 1")
            expected[len(ops) - 1] = ("full", full_of(st))
            ops.append("show 1")
            expected[len(ops) - 1] = ("show", visible_of(st))
            cases += 1
    c.run_suite(Suite("lww-all-permutations", "dist", ops, monitor_perm(expected), {"cases": cases, "nontrivial": cases, "update_sets": nsets}, resets=("reset",)))
    samples.append({"suite": "lww-all-permutations", "ops": ops[:8]})
    # --- suite 2: malformed entries inside batches (model = implementation; no oracle)
    ops, cases = [], 0
    for _ in range(200 if c.tier == "quick" else 2000):
        ups = gen_updates(rng, rng.choice([3, 4, 5]))
        bad = rng.choice(["S,_,c,mp,1,5,0", "U,_,mp/a,1,0,5,0", "U,s1,_,1,0,5,0", "R!,5,0", "R,_,01,5,0", "R,mp/+,01,77,0", "R,mp/#,02,78,0"])
        ups.insert(rng.randrange(len(ups) + 1), bad)
        ops += ["reset", "inj 1 " + ";".join(ups), "full 1", "show 1", "inj 1 " + ";".join(reversed(ups)), "full 1"]
        cases += 1
    c.run_suite(Suite("malformed-in-batch", "dist", ops, None, {"cases": cases, "nontrivial": cases}, resets=("reset",)))
    # --- suite 3: gossip of real local operations (origin clock offset changes), two receivers, different orders
    ops, cases, checks = [], 0, {}
    for _ in range(150 if c.tier == "quick" else 2500):
        ops.append("reset")
        if rng.random() < 0.25:
            # one or both receivers hear of everything a long time (8 h 20 min of their clocks) after it happened
            ops.append("off 1 30000000000000")
            if rng.random() < 0.5:
                ops.append("off 2 30000000000007")
        n = rng.choice([4, 6, 9, 14])
        for j in range(n):
            if rng.random() < 0.3:
                ops.append(f"off 0 {rng.choice([-35, -12, 0, 7, 23, 51])}")
            ops.append(distlib.random_local_op(rng, 0))
        ops.append("nsent 0")
        # we do not know the number of broadcasts statically (exists / no-op deletes queue none): deliver generously
        idx = list(range(n))
        o1 = idx[:]
        rng.shuffle(o1)
        o2 = idx[:] + [rng.choice(idx) for _ in range(3)]
        rng.shuffle(o2)
        for k in o1:
            ops.append(f"deliver 0 {k} 1")
        i = 0
        while i < len(o2):
            m = rng.choice([1, 2, 3])
            ops.append(f"batch 0 {','.join(map(str, o2[i:i + m]))} 2")
            i += m
        # stored stamps may legitimately differ between receivers when the origin's clock stepped back
        # (a removal stamped below the entry's add time ties with the entry itself); what is LISTED must not
        ops.append("full 1")
        ops.append("full 2")
        ops.append("show 1")
        a = len(ops) - 1
        ops.append("show 2")
        checks[len(ops) - 1] = a
        cases += 1

    def mon3(ops_, impl):
        out = []
        for i, j in checks.items():
            if impl[i] != impl[j]:
                out.append((i, "replicas-differ", f"two nodes that received the same set of broadcasts differ: {impl[j]} vs {impl[i]}"))
        return out
    c.run_suite(Suite("gossip-two-receivers", "dist", ops, mon3, {"cases": cases, "nontrivial": cases}, resets=("reset",)))
    samples.append({"suite": "gossip-two-receivers", "ops": ops[:24]})
    # --- suite 4: every node acts (adds, removes) AND receives, gossip arrives late and repeatedly: a store only moves
    # forward — an older update never brings back what a newer one (of whichever node) removed, no removal is forgotten
    ops, cases = [], 0
    for _ in range(150 if c.tier == "quick" else 2500):
        ops += ["reset", "off 0 0", "off 1 5", "off 2 3"]
        sent = [0, 0]
        for _ in range(rng.choice([4, 7, 11])):
            n = rng.choice([0, 1])
            ops.append(distlib.random_local_op(rng, n, bulk_bias=0.1))
            sent[n] += 1
            ops.append(f"full {n}")
            for _ in range(rng.choice([0, 1, 1, 2])):
                m = rng.choice([0, 1])
                if sent[m] > 0:
                    ops.append(f"deliver {m} {rng.randrange(sent[m])} {1 - m}")
                    ops.append(f"full {1 - m}")
        cases += 1
    c.run_suite(Suite("gossip-both-ways-with-redelivery", "dist", ops, distlib.monotone_store, {"cases": cases, "nontrivial": cases}, resets=("reset",)))
    samples.append({"suite": "gossip-both-ways-with-redelivery", "ops": ops[:16]})
    c.assumptions += ["TieFree: distinct updates of one key carry distinct timestamps (necessity proven: tie_counterexample)",
                      "retained topics are topic names without wildcard levels; ids/patterns/topics non-empty (what merge itself validates)"]
    return c.finish(samples=samples,
                    rule="case = one delivery schedule (permutation + duplication + batching) of a tie-free update set over overlapping keys, "
                         "or one gossip history with two receivers; every case mixes adds and removes")

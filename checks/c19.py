"""C19 — topic-keyed stores behave as maps over full topic strings.
Theorems: lean/Wasp/Properties/C19.lean (refinement of both tries to a path->value function).
Tie: correspondence on subscriptions.Tree and topics.Store (real protobuf Dump/Load):
  every sequence of <= N insert/replace/remove/upsert ops over {a, a/b, a/b/c, a/c, b} with a
  dump/load round trip inserted at every position (N=3 exhaustive in quick, N=4 in thorough,
  plus seeded random sequences of length 6 and longer, and keys with empty levels).
Monitor: a python dict (the spec) — exact-key Match/Walk, Count and Iterate must report exactly the dict."""
import itertools
from checklib import Suite, Check
from checks.trielib import parse_list

KEYS = ["a", "a/b", "a/b/c", "a/c", "b"]
EXTRA_KEYS = ["a//b", "/a", "a/", "~", "/", "b/a", "a/b/c/d"]
V = ["01", "02"]


def ret_monitor(ops, impl):
    out = []
    d = {}
    emptied = set()
    for i, (op, res) in enumerate(zip(ops, impl)):
        f = op.split()
        if res.startswith("panic") or res in ("<no-output>", "err", "dump-err", "load-err"):
            out.append((i, "panic", f"`{op}` -> {res}"))
            continue
        if f[0] == "new":
            d = {}
            emptied = set()
        elif f[0] == "ins":
            exp_old = f[1] in d
            # (what Insert reports for a key whose value was emptied rather than removed is left to the model comparison)
            if f[1] not in emptied and res != f"old={'true' if exp_old else 'false'}":
                out.append((i, "insert-old-flag", f"Insert({f[1]}) reported {res}, store held a value: {exp_old}"))
            if f[2] in ("-", "="):      # nil, or empty but not nil: both mean "no entry"
                d.pop(f[1], None)
                emptied.add(f[1])
            else:
                d[f[1]] = f[2]
        elif f[0] == "rm":
            d.pop(f[1], None)
        elif f[0] == "match" and not any(c in f[1] for c in "+#"):
            got = parse_list(res)
            exp = [d[f[1]]] if f[1] in d else []
            if got != exp:
                out.append((i, "map-law", f"Match({f[1]}) = {got}, the last value written there is {exp}; store = {d}"))
        elif f[0] == "count":
            if res != str(len(d)):
                out.append((i, "count", f"Count = {res}, non-empty entries: {len(d)} {d}"))
        elif f[0] == "iter":
            got = parse_list(res)
            if got != sorted(d.values()):
                out.append((i, "iterate", f"Iterate = {got}, non-empty entries: {sorted(d.values())}"))
    return out


def sub_monitor(ops, impl):
    out = []
    d = {}
    for i, (op, res) in enumerate(zip(ops, impl)):
        f = op.split()
        if res.startswith("panic") or res in ("<no-output>", "err", "dump-err", "load-err"):
            out.append((i, "panic", f"`{op}` -> {res}"))
            continue
        if f[0] == "new":
            d = {}
        elif f[0] == "set":
            if f[2] in ("-", "="):      # nil, or empty but not nil: both mean "no entry"
                d.pop(f[1], None)
            else:
                d[f[1]] = f[2]
        elif f[0] == "app":
            if f[2] != "-":
                d[f[1]] = d.get(f[1], "") + f[2]
        elif f[0] == "walk" and not any(c in f[1] for c in "+#") and not any(any(c in k for c in "+#") for k in d):
            got = [x for x in parse_list(res) if x != "-"]
            exp = [d[f[1]]] if f[1] in d else []
            if got != exp:
                out.append((i, "map-law", f"Walk({f[1]}) = {got}, the value written there is {exp}; index = {d}"))
        elif f[0] == "iter":
            got = parse_list(res)
            if got != sorted(d.values()):
                out.append((i, "iterate", f"Iterate = {got}, non-empty entries: {sorted(d.values())}"))
    return out


def observe_ret(keys):
    return [f"match {k}" for k in keys] + ["count", "iter", "match #"]


def observe_sub(keys):
    return [f"walk {k}" for k in keys] + ["iter"]


def sequences(step_ops, n, with_dumpload=True):
    """all sequences of exactly n ops, with `dumpload` inserted at every position (and not at all)"""
    for seq in itertools.product(step_ops, repeat=n):
        yield list(seq)
        if with_dumpload:
            for pos in range(n + 1):
                yield list(seq[:pos]) + ["dumpload"] + list(seq[pos:])


def main(tier=None):
    c = Check("C19", ["Wasp.Properties.C19"], tier)
    c.build()
    rng = c.rng
    samples = []
    N = 3 if c.tier == "quick" else 4
    ret_steps = [f"ins {k} {v}" for k in KEYS for v in V] + [f"rm {k}" for k in KEYS] + [f"ins {k} =" for k in KEYS[:3]]
    sub_steps = [f"set {k} {v}" for k in KEYS for v in ("01", "-", "=")] + [f"app {k} 02" for k in KEYS]
    for name, dom, steps, obs, mon in (("ret", "rettree", ret_steps, observe_ret(KEYS), ret_monitor),
                                       ("sub", "subtree", sub_steps, observe_sub(KEYS), sub_monitor)):
        ops, cases = [], 0
        for n in range(1, N + 1):
            for seq in sequences(steps, n):
                ops.append("new")
                ops += seq
                # the store must keep accepting updates after a load: one more write, then observe
                ops += obs
                cases += 1
        c.run_suite(Suite(f"{name}-exhaustive-le{N}", dom, ops, mon, {"cases": cases, "nontrivial": cases, "max_len": N}, exhaustive=True))
        samples.append({"suite": f"{name}-exhaustive-le{N}", "ops": ops[-(N + len(obs) + 2):]})
        # random longer sequences (the property's own bound is 6) incl. keys with empty levels
        ops, cases = [], 0
        nrand = 3000 if c.tier == "quick" else 60000
        allkeys = KEYS + EXTRA_KEYS
        for _ in range(nrand):
            ln = rng.choice([5, 6, 6, 6, 9, 14])
            keys = KEYS if rng.random() < 0.6 else allkeys
            ops.append("new")
            for _ in range(ln):
                r = rng.random()
                if r < 0.15:
                    ops.append("dumpload")
                elif dom == "rettree":
                    k = rng.choice(keys)
                    ops.append(f"ins {k} {rng.choice(V + ['03', '-', '='])}" if rng.random() < 0.6 else f"rm {k}")
                else:
                    k = rng.choice(keys)
                    ops.append(rng.choice([f"set {k} 01", f"set {k} -", f"set {k} =", f"app {k} 02", f"set {k} 0405"]))
            ops += (observe_ret(keys) if dom == "rettree" else observe_sub(keys))
            cases += 1
        c.run_suite(Suite(f"{name}-random-len6plus", dom, ops, mon, {"cases": cases, "nontrivial": cases}))
    return c.finish(samples=samples,
                    rule="case = one op sequence from an empty store followed by observation of every key (exact Match/Walk), Count, "
                         "Iterate; exhaustive suites enumerate every sequence of <= max_len ops over the 5 prefix-related keys, each also "
                         "with a dump/load at every position; all cases are non-trivial (they write at least one key)")

"""C04 — every in-flight entry is resolved exactly once and independently of the others.
Theorems: lean/Wasp/Properties/C04.lean (invariant table<->timeout list, exact sweep, monitor acceptance of every trace).
Tie: `ackq` correspondence on the real ack.Queue (+ expiration.pqList, gotomic hash) with recording callbacks:
  collision-biased histories (few sessions and ids; deadlines equal / same second / around a second boundary / past /
  future; sweeps before, at and after; wrong packet types, unknown ids, duplicates, id 0, QoS 0), exhaustive short histories.
Monitor: python mirror of Wasp.Ack.judge — per entry: at most one outcome; acknowledged only by the expected type;
expired not earlier than 1 s before and no later than the first sweep 1 s after its deadline."""
import itertools
from checklib import Suite, Check

EXPECT = {("publish", 1): "puback", ("publish", 2): "pubrec", ("pubrec", 0): "pubrel", ("pubrec", 1): "pubrel", ("pubrec", 2): "pubrel",
          ("pubrel", 0): "pubcomp", ("pubrel", 1): "pubcomp", ("pubrel", 2): "pubcomp"}
HAS_MID = {"publish", "puback", "pubrec", "pubrel", "pubcomp", "suback"}


def parse_events(s):
    s = s.strip()
    if not (s.startswith("[") and s.endswith("]")):
        raise ValueError(s)
    inner = s[1:-1].strip()
    out = []
    for e in (inner.split(" ") if inner else []):
        key, how, stored = e.rsplit(":", 2)
        out.append((key, how, stored))
    return out


def monitor(ops, impl):
    out = []
    live = {}
    for i, (op, res) in enumerate(zip(ops, impl)):
        f = op.split()
        if res.startswith("panic") or res == "<no-output>":
            out.append((i, "panic", f"`{op}` -> {res}"))
            continue
        try:
            if f[0] == "new":
                live = {}
            elif f[0] == "ins":
                pfx, kind, qos, mid, d = f[1], f[2], int(f[3]), int(f[4]), int(f[5])
                key = f"{pfx}/{mid}"
                if res == "ok":
                    if key in live:
                        out.append((i, "duplicate-accepted", f"a second registration of live identifier {key} was accepted"))
                    elif (kind, qos) not in EXPECT or mid == 0:
                        out.append((i, "invalid-accepted", f"`{op}` was accepted"))
                    else:
                        live[key] = (EXPECT[(kind, qos)], kind, d)
                elif key in live and res != "dup" and (kind, qos) in EXPECT and mid != 0:
                    out.append((i, "duplicate-not-reported", f"registration of live identifier {key} answered {res}"))
            elif f[0] == "ack":
                pfx, kind, mid = f[1], f[2], int(f[3])
                key = f"{pfx}/{mid}"
                r, evs = res.split(" ", 1)
                evs = parse_events(evs)
                if key in live and kind in HAS_MID and live[key][0] == kind:
                    if r != "ok" or evs != [(key, "ack", live[key][1])]:
                        out.append((i, "ack-outcome", f"expected acknowledgement of live entry {key}: result {r}, callbacks {evs}; want exactly one 'acknowledged' for it"))
                    live.pop(key, None)
                    for e in evs:
                        live.pop(e[0], None)
                else:
                    if r == "ok" or evs:
                        out.append((i, "spurious-resolution", f"`{op}` (no live entry expecting it) answered {r} and fired {evs}"))
                        for e in evs:
                            live.pop(e[0], None)
            elif f[0] == "exp":
                now = int(f[1])
                r, evs = res.split(" ", 1)
                evs = parse_events(evs)
                seen = set()
                for key, how, stored in evs:
                    if key in seen:
                        out.append((i, "resolved-twice", f"sweep at {now} fired {key} twice"))
                    seen.add(key)
                    if key not in live:
                        out.append((i, "spurious-resolution", f"sweep at {now} fired {key}, which is not in flight (already resolved or never registered)"))
                    elif how != "exp" or stored != live[key][1]:
                        out.append((i, "wrong-outcome", f"sweep fired {key} as {how}/{stored}"))
                    elif not (live[key][2] - 1000 < now):
                        out.append((i, "expired-early", f"sweep at {now} expired {key} whose deadline is {live[key][2]}"))
                for key, (st, kind, d) in list(live.items()):
                    if now >= d + 1000 and key not in seen:
                        out.append((i, "never-expired", f"sweep at {now} did not expire {key} whose deadline {d} passed more than a second ago"))
                for key in seen:
                    live.pop(key, None)
        except Exception as e:  # malformed output
            out.append((i, "bad-output", f"`{op}` -> {res} ({e})"))
    return out


PFX = ["s", "t"]
MIDS = [1, 2]
DEADLINES = [3000, 3000, 3400, 3499, 3500, 3600, 2600, 4000, 900, 7000]


def rand_history(rng, n):
    ops = ["new"]
    now = 0
    for _ in range(n):
        r = rng.random()
        if r < 0.45:
            kind, qos = rng.choice([("publish", 1), ("publish", 2), ("pubrec", 0), ("pubrel", 0), ("publish", 1), ("publish", 0), ("puback", 0)])
            mid = rng.choice(MIDS + [1, 2, 3, 0]) if rng.random() < 0.9 else 0
            ops.append(f"ins {rng.choice(PFX)} {kind} {qos} {mid} {now + rng.choice(DEADLINES) - 3000 + rng.choice([0, 0, 1000, 2000])}")
        elif r < 0.75:
            kind = rng.choice(["puback", "pubrec", "pubrel", "pubcomp", "puback", "publish", "suback", "pingreq"])
            ops.append(f"ack {rng.choice(PFX)} {kind} {rng.choice(MIDS + [3, 9])}")
        else:
            now += rng.choice([0, 1, 400, 500, 600, 1000, 1001, 3000, 3001])
            ops.append(f"exp {now}")
    ops.append(f"exp {now + 20000}")
    return ops


def same_second_history(rng):
    """several exchanges whose deadlines fall in the same second, registered in an arbitrary order; some are acknowledged
    and their identifiers re-used with far deadlines; a sweep falls after that second and before the new deadlines"""
    ops = ["new"]
    sec = rng.choice([3000, 4000])
    k = rng.choice([2, 3, 4])
    offs = rng.sample([-400, -300, -100, 0, 100, 200, 300, 400, 499], k)
    keys = [(rng.choice(PFX), m) for m in rng.sample([1, 2, 3, 4], k)]
    for (p, m), o in zip(keys, offs):
        ops.append(f"ins {p} publish 1 {m} {sec + o}")
    acked = rng.sample(keys, rng.choice([1, 1, 2, k]))
    for (p, m) in acked:
        ops.append(f"ack {p} puback {m}")
    for (p, m) in acked:
        if rng.random() < 0.8:
            ops.append(f"ins {p} publish {rng.choice([1, 2])} {m} {sec + rng.choice([3000, 4200, 6000])}")
    ops.append(f"exp {sec + 1001}")
    ops.append(f"exp {sec + 20000}")
    return ops


KS_PFX = ["s", "s1", "s11", "s1/", "s/1", "c", "c1", "c11", "ab", "a"]
KS_MIDS = [1, 11, 111, 2, 12, 257, 513, 55296, 55300, 57343, 65533, 65535, 4660, 13330]


def key_space_history(rng):
    """the table is keyed by (session, identifier): sessions whose ids are prefixes of one another (with digits or the
    separator following), identifiers whose decimal / byte / code-point renderings could run together (1 and 11 and 111,
    1 and 257, the UTF-16 surrogate range, 65533) — distinct pairs are distinct entries, an acknowledgement or a sweep
    for one pair never touches another"""
    ops = ["new"]
    pairs = rng.sample([(p, m) for p in KS_PFX for m in KS_MIDS], rng.choice([4, 6, 9]))
    if rng.random() < 0.7:
        # force a pair of pairs that collide under separator-less or truncating keys
        a, b = rng.choice([(("s1", 11), ("s11", 1)), (("c", 111), ("c11", 1)), (("s", 55296), ("s", 55300)), (("s", 57343), ("s", 65533)),
                           (("s", 1), ("s", 257)), (("s1", 1), ("s", 11)), (("a", 4660), ("a", 13330)), (("s1/", 1), ("s1", 1))])
        pairs = [x for x in pairs if x not in (a, b)] + [a, b]
    rng.shuffle(pairs)
    live = []
    for (p, m) in pairs:
        kind, qos = rng.choice([("publish", 1), ("publish", 2), ("pubrel", 0)])
        ops.append(f"ins {p} {kind} {qos} {m} {rng.choice([3000, 3400, 4600, 6000])}")
        live.append((p, m, {("publish", 1): "puback", ("publish", 2): "pubrec", ("pubrel", 0): "pubcomp"}[(kind, qos)]))
    others = [(p, m) for p in KS_PFX for m in KS_MIDS if (p, m) not in pairs]
    for _ in range(rng.choice([2, 4])):
        p, m = rng.choice(others)
        ops.append(f"ack {p} {rng.choice(['puback', 'pubrec', 'pubcomp'])} {m}")       # nobody holds that pair
    for (p, m, a) in rng.sample(live, max(1, len(live) // 2)):
        ops.append(f"ack {p} {a} {m}")
    ops.append("exp 3001")
    ops.append("exp 30000")
    return ops


def add_key_space_suite(c, samples, n):
    ops, cases = [], 0
    for _ in range(n):
        ops += key_space_history(c.rng)
        cases += 1
    c.run_suite(Suite("ackq-key-space", "ackq", ops, monitor, {"cases": cases, "nontrivial": cases}))
    samples.append({"suite": "ackq-key-space", "ops": ops[:12]})


def add_queue_suites(c, samples, exhaustive_n, n_random):
    rng = c.rng
    add_key_space_suite(c, samples, max(60, n_random // 10))
    # exhaustive short histories over 2 sessions x 2 ids x 3 deadlines
    steps = [f"ins {p} publish 1 {m} {d}" for p in PFX for m in (1, 2) for d in (3000, 3400, 4600)][:8]
    steps += [f"ack {p} {k} {m}" for p in ("s",) for k in ("puback", "pubcomp") for m in (1, 2)]
    steps += [f"exp {t}" for t in (2999, 3001, 4001, 5001)]
    N = exhaustive_n
    ops, cases = [], 0
    for n in range(1, N + 1):
        for seq in itertools.product(steps, repeat=n):
            ops += ["new"] + list(seq) + ["exp 3001", "exp 9000"]
            cases += 1
    c.run_suite(Suite(f"ackq-exhaustive-le{N}", "ackq", ops, monitor, {"cases": cases, "nontrivial": cases}, exhaustive=True))
    samples.append({"suite": f"ackq-exhaustive-le{N}", "ops": ops[-7:]})
    ops, cases = [], 0
    for _ in range(n_random):
        ops += rand_history(rng, rng.choice([6, 12, 25, 60]))
        cases += 1
    for _ in range(max(100, n_random // 5)):
        ops += same_second_history(rng)
        cases += 1
    c.run_suite(Suite("ackq-random-collisions", "ackq", ops, monitor, {"cases": cases, "nontrivial": cases}))
    samples.append({"suite": "ackq-random-collisions", "ops": ops[:14]})


def add_concurrent_suite(c, samples):
    """register / acknowledge / sweep from 16 goroutines on the real queue: every accepted entry resolves exactly once"""
    rounds = 2 if c.tier == "quick" else 12
    ops = [f"stress ackq {700 if c.tier == 'quick' else 1500} {c.seed * 100 + r}" for r in range(rounds)]
    want = "resolved-twice=0 unresolved=0"

    def mon(ops_, impl):
        return [(i, "post-stress-invariant", f"`{op}` on 16 goroutines: {res} (expected {want})")
                for i, (op, res) in enumerate(zip(ops_, impl)) if res != want and res != "<no-output>"]
    c.run_suite(Suite("ackq-concurrent", "stress", ops, mon, {"cases": len(ops), "nontrivial": len(ops), "goroutines": 16}, resets=("stress",), compare=False), timeout=1200)
    samples.append({"suite": "ackq-concurrent", "ops": ops[:2]})


def main(tier=None):
    c = Check("C04", ["Wasp.Properties.C04", "Wasp.Properties.C04Lit", "Wasp.Properties.Facts.C04"], tier)
    c.build()
    samples = []
    add_queue_suites(c, samples, 3 if c.tier == "quick" else 4, 2000 if c.tier == "quick" else 40000)
    add_concurrent_suite(c, samples)
    c.assumptions += ["gotomic.Hash behaves as a map with atomic put-if-missing/delete", "time.Time.Round(time.Second) modelled on millisecond integers",
                      "concurrent register/acknowledge/sweep is C20's half of the quantifier"]
    return c.finish(samples=samples,
                    rule="case = one history from an empty queue ending with two sweeps; collision-biased: 2 sessions x 2 ids, deadlines equal, "
                         "in the same second, around a rounding boundary, past and future; all contain at least one registration")

from checks.brokerchecks import c17 as main
